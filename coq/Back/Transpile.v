(* Model of /repo/transpiler/transpiler.go: the traversal that drives a Converter, written once
   against an abstract converter (a record of the Converter interface's methods over a state S
   and a value representation V), in Go's call order. *)
From Verif Require Import Base.Bytestr Front.Ast.
From Coq Require Import ZArith.
Open Scope N_scope.

Inductive tres (S A : Type) :=
| TOk (a : A) (s : S)
| TErr            (* an error return *)
| TPanic.         (* a Go run-time panic (index out of range, nil map, ...) *)
Arguments TOk {S A}. Arguments TErr {S A}. Arguments TPanic {S A}.

Record converter (S V : Type) := mkConv {
  cv_bool : bool -> V;                                   (* BoolToString *)
  cv_int : Z -> V;                                       (* IntToString *)
  cv_string : bytes -> S -> V * S;                       (* StringToString *)
  cv_empty : V;                                          (* "" (firstValue of nothing) *)
  cv_program_start : S -> S;
  cv_program_end : S -> S;
  cv_var_definition : bytes -> V -> bool -> S -> S;
  cv_slice_assignment : bytes -> V -> V -> V -> bool -> S -> S;
  cv_func_start : bytes -> list bytes -> list vtype -> S -> S;
  cv_func_end : S -> tres S unit;
  cv_return : list V -> S -> tres S unit;
  cv_if_start : V -> S -> S;
  cv_if_end : S -> tres S unit;
  cv_elseif_start : V -> S -> tres S unit;
  cv_else_start : S -> tres S unit;
  cv_for_start : S -> S;
  cv_for_incr_start : S -> tres S unit;
  cv_for_incr_end : S -> tres S unit;
  cv_for_condition : V -> S -> S;
  cv_for_end : S -> tres S unit;
  cv_break : S -> tres S unit;
  cv_continue : S -> tres S unit;
  cv_print : list V -> S -> S;
  cv_panic : V -> S -> S;
  cv_write_file : V -> V -> V -> S -> S;
  cv_nop : S -> S;
  cv_unary : V -> S -> V * S;
  cv_binary : V -> binop -> V -> vtype -> S -> tres S V;
  cv_comparison : V -> cmpop -> V -> vtype -> S -> tres S V;
  cv_logical : V -> logop -> V -> S -> V * S;
  cv_var_evaluation : bytes -> bool -> S -> V;
  cv_slice_instantiation : list V -> S -> V * S;
  cv_slice_evaluation : V -> V -> S -> V * S;
  cv_slice_len : V -> S -> V * S;
  cv_string_subscript : V -> V -> V -> S -> V * S;
  cv_string_len : V -> S -> V * S;
  cv_func_call : bytes -> list V -> list vtype -> bool -> S -> list V * S;
  cv_app_call : list (bytes * list V) -> bool -> S -> list V * S;
  cv_input : V -> bool -> S -> V * S;                     (* bool: a prompt expression was given *)
  cv_copy : bytes -> V -> bool -> S -> V * S;
  cv_exists : V -> S -> V * S;
  cv_read_file : V -> S -> V * S;
  cv_dump : S -> bytes
}.

Section Traversal.
  Context {St V : Type}.
  Variable C : converter St V.

  Definition M (A : Type) := St -> tres St A.
  Definition mret {A} (a : A) : M A := fun s => TOk a s.
  Definition mbind {A B} (m : M A) (f : A -> M B) : M B :=
    fun s => match m s with TOk a s' => f a s' | TErr => TErr | TPanic => TPanic end.
  Definition merr {A} : M A := fun _ => TErr.
  Definition lift {A} (f : St -> A * St) : M A := fun s => let '(a, s') := f s in TOk a s'.
  Definition upd (f : St -> St) : M unit := fun s => TOk tt (f s).

  Notation "x <- m ;; k" := (mbind m (fun x => k)) (at level 61, m at next level, right associativity).
  Notation "m ;;; k" := (mbind m (fun _ => k)) (at level 61, right associativity).

  Definition first_value (l : list V) : V := match l with v :: _ => v | [] => cv_empty St V C end.

  (* evaluateValueTypeDefaultValue *)
  Definition default_of (t : vtype) : M V :=
    match dt t with
    | DBool => mret (cv_bool St V C false)
    | DInt => mret (cv_int St V C 0)
    | DString => lift (cv_string St V C [])
    | _ => merr
    end.

  (* evaluateExpression(e, valueUsed) : the list of result values *)
  Fixpoint t_expr (e : expr) (used : bool) {struct e} : M (list V) :=
    let one := fun (m : M V) => v <- m ;; mret [v] in
    let args_of := fix args_of (es : list expr) : M (list V) :=
      match es with
      | [] => mret []
      | a :: r => va <- t_expr a true ;; vr <- args_of r ;; mret (first_value va :: vr)
      end in
    match e with
    | EBool b => mret [cv_bool St V C b]
    | EInt z => mret [cv_int St V C z]
    | EStr s => one (lift (cv_string St V C s))
    | EUnary x => vx <- t_expr x true ;; one (lift (cv_unary St V C (first_value vx)))
    | EBinary l op r =>
        vl <- t_expr l true ;; vr <- t_expr r true ;;
        one (cv_binary St V C (first_value vl) op (first_value vr) (type_of l))
    | ECompare l op r =>
        vl <- t_expr l true ;; vr <- t_expr r true ;;
        one (cv_comparison St V C (first_value vl) op (first_value vr) (type_of l))
    | ELogical l op r =>
        vl <- t_expr l true ;; vr <- t_expr r true ;;
        one (lift (cv_logical St V C (first_value vl) op (first_value vr)))
    | EVar v => fun s => TOk [cv_var_evaluation St V C (v_name v) (v_global v) s] s
    | EGroup x => t_expr x used
    | ECall name rets args =>
        vs <- args_of args ;;
        res <- lift (cv_func_call St V C name vs rets used) ;;
        if used && negb (Nat.eqb (length res) (length rets)) then merr else mret res
    | EApp calls =>
        cs <- (fix calls_of (cl : list (bytes * list expr)) : M (list (bytes * list V)) :=
                 match cl with
                 | [] => mret []
                 | (n, args) :: r => vs <- args_of args ;; cr <- calls_of r ;; mret ((n, vs) :: cr)
                 end) calls ;;
        lift (cv_app_call St V C cs used)
    | ESliceInst _ vals => vs <- args_of vals ;; one (lift (cv_slice_instantiation St V C vs))
    | ESliceEval value idx _ =>
        vv <- t_expr value true ;; vi <- t_expr idx true ;;
        one (lift (cv_slice_evaluation St V C (first_value vv) (first_value vi)))
    | ESubscript value start stop =>
        va <- t_expr start true ;;
        vb <- (match stop with Some b => t_expr b true | None => mret va end) ;;
        vv <- t_expr value true ;;
        one (lift (cv_string_subscript St V C (first_value vv) (first_value va) (first_value vb)))
    | ELen x =>
        vx <- t_expr x true ;;
        if is_string (type_of x) then one (lift (cv_string_len St V C (first_value vx)))
        else one (lift (cv_slice_len St V C (first_value vx)))
    | EInput prompt =>
        match prompt with
        | Some p => vp <- t_expr p used ;; one (lift (cv_input St V C (first_value vp) true))
        | None => one (lift (cv_input St V C (cv_empty St V C) false))
        end
    | ECopy dst src =>
        vs <- t_expr src true ;;
        one (lift (cv_copy St V C (v_name dst) (first_value vs) (v_global dst)))
    | EItoa x => vx <- t_expr x true ;; mret [first_value vx]
    | EExists p => vp <- t_expr p true ;; one (lift (cv_exists St V C (first_value vp)))
    | ERead p =>
        if is_string (type_of p) then vp <- t_expr p true ;; one (lift (cv_read_file St V C (first_value vp)))
        else merr
    end.

  (* evaluateValuesAssignment: evaluate everything (parking values in _ma<i> when several variables
     are written), then store *)
  Definition ma_name (i : nat) : bytes := bs "_ma" ++ dec_N (N.of_nat i).

  Fixpoint eval_values (many : bool) (es : list expr) (i : nat) : M (list V) :=
    match es with
    | [] => mret []
    | e :: r =>
        ve <- t_expr e true ;;
        v <- (if many then
                upd (cv_var_definition St V C (ma_name i) (first_value ve) false) ;;;
                (fun s => TOk (cv_var_evaluation St V C (ma_name i) false s) s)
              else mret (first_value ve)) ;;
        vr <- eval_values many r (S i) ;;
        mret (v :: vr)
    end.

  Fixpoint store_values (vars : list var) (vals : list V) : M unit :=
    match vars, vals with
    | [], _ => mret tt
    | v :: r, x :: xr => upd (cv_var_definition St V C (v_name v) x (v_global v)) ;;; store_values r xr
    | _ :: _, [] => fun _ => TPanic              (* values[i] out of range *)
    end.

  Definition assign_values (vars : list var) (es : list expr) : M unit :=
    (* Go indexes expressions[i] for every variable: fewer expressions than variables is a panic *)
    if (length es <? length vars)%nat then (fun _ => TPanic)
    else vs <- eval_values (1 <? length vars)%nat (firstn (length vars) es) 0 ;; store_values vars vs.

  Definition assign_call (vars : list var) (call : expr) : M unit :=
    vs <- t_expr call true ;;
    if Nat.eqb (length vs) (length vars) then store_values vars vs else merr.

  (* evaluate(statement) *)
  Fixpoint t_stmt (st : stmt) {struct st} : M unit :=
    let block := fix block (b : list stmt) : M unit :=
      match b with
      | [] => mret tt
      | s :: r => t_stmt s ;;; block r
      end in
    let t_block := fun (b : list stmt) => match b with [] => upd (cv_nop St V C) | _ => block b end in
    match st with
    | SVarDef vars vals => assign_values vars vals
    | SVarDefCall vars call => assign_call vars call
    | SAssign vars vals => assign_values vars vals
    | SAssignCall vars call => assign_call vars call
    | SSliceAssign v idx val =>
        vi <- t_expr idx true ;;
        vv <- t_expr val true ;;
        d <- default_of (type_of val) ;;
        upd (cv_slice_assignment St V C (v_name v) (first_value vi) (first_value vv) d (v_global v))
    | SFunc name rets params body _ =>
        upd (cv_func_start St V C name (map v_name params) rets) ;;;
        t_block body ;;;
        cv_func_end St V C
    | SReturn vals =>
        vs <- (fix rv (es : list expr) : M (list V) :=
                 match es with
                 | [] => mret []
                 | e :: r => ve <- t_expr e true ;; vr <- rv r ;; mret (first_value ve :: vr)
                 end) vals ;;
        cv_return St V C vs
    | SIf branches els =>
        match branches with
        | [] => fun _ => TPanic
        | (c0, b0) :: elifs =>
            v0 <- t_expr c0 true ;;
            cs <- (fix conds (l : list (expr * list stmt)) : M (list V) :=
                     match l with
                     | [] => mret []
                     | (c, _) :: r => vc <- t_expr c true ;; vr <- conds r ;; mret (first_value vc :: vr)
                     end) elifs ;;
            upd (cv_if_start St V C (first_value v0)) ;;;
            t_block b0 ;;;
            (fix bodies (l : list (expr * list stmt)) (vs : list V) : M unit :=
               match l, vs with
               | [], _ => mret tt
               | (_, b) :: r, v :: vr => cv_elseif_start St V C v ;;; t_block b ;;; bodies r vr
               | _ :: _, [] => fun _ => TPanic
               end) elifs cs ;;;
            (match els with
             | [] => mret tt
             | _ => cv_else_start St V C ;;; t_block els
             end) ;;;
            cv_if_end St V C
        end
    | SFor init cond incr body =>
        (match init with Some i => t_stmt i | None => mret tt end) ;;;
        upd (cv_for_start St V C) ;;;
        (match incr with
         | Some i => cv_for_incr_start St V C ;;; t_stmt i ;;; cv_for_incr_end St V C
         | None => mret tt
         end) ;;;
        vc <- t_expr cond true ;;
        upd (cv_for_condition St V C (first_value vc)) ;;;
        t_block body ;;;
        cv_for_end St V C
    | SBreak => cv_break St V C
    | SContinue => cv_continue St V C
    | SPrint es =>
        vs <- (fix pv (l : list expr) : M (list V) :=
                 match l with
                 | [] => mret []
                 | e :: r => ve <- t_expr e true ;; vr <- pv r ;; mret (ve ++ vr)
                 end) es ;;
        upd (cv_print St V C vs)
    | SPanic e => ve <- t_expr e true ;; upd (cv_panic St V C (first_value ve))
    | SWrite p d a =>
        if negb (is_string (type_of p)) then merr else
        vp <- t_expr p true ;;
        if negb (is_string (type_of d)) then merr else
        vd <- t_expr d true ;;
        if negb (is_bool (type_of a)) then merr else
        va <- t_expr a true ;;
        upd (cv_write_file St V C (first_value vp) (first_value vd) (first_value va))
    | SExpr e => t_expr e false ;;; mret tt
    end.

  (* Transpile: ProgramStart, every statement, ProgramEnd, Dump *)
  Definition transpile_program (init : St) (body : list stmt) : tres St bytes :=
    let run := (fix go (b : list stmt) : M unit :=
                  match b with [] => mret tt | s :: r => t_stmt s ;;; go r end) in
    match run body (cv_program_start St V C init) with
    | TOk _ s => let s' := cv_program_end St V C s in TOk (cv_dump St V C s') s'
    | TErr => TErr
    | TPanic => TPanic
    end.
End Traversal.
