(* transpiler.Transpile: parse, then drive a fresh converter; both targets; repeated calls. *)
From Verif Require Import Base.Bytestr gen.Tables Lex.LexModel Front.Squeeze Front.Ast Front.FrontModel
  Back.BashLines Back.Transpile Back.BashConv Back.BatchConv.
Open Scope N_scope.

Inductive target := TBash | TBatch.

Inductive result :=
| Script (text : bytes)     (* (script, nil) *)
| Failed                    (* ("", err) *)
| Crashed                   (* a Go panic *)
| OutOfFuel.                (* model artefact *)

Definition emit (t : target) (body : list stmt) : result :=
  match t with
  | TBash => match emit_bash body with TOk s _ => Script s | TErr => Failed | TPanic => Crashed end
  | TBatch => match emit_batch body with TOk s _ => Script s | TErr => Failed | TPanic => Crashed end
  end.

Definition transpile_entry (E : env) (path : bytes) (fe : fentry) (t : target) : result :=
  match parse_entry E (S (length (e_fs E))) [] [] path false fe with
  | POk body _ _ _ => emit t body
  | PErr => Failed
  | PFuel => OutOfFuel
  end.

Definition transpile (E : env) (path : bytes) (t : target) : result :=
  match aget path (e_fs E) with
  | Some fe => transpile_entry E path fe t
  | None => Failed
  end.

(* A transpiler object used for a sequence of calls: Go's transpiler struct only stores the converter
   of the current call, the parser and the converter are created per call. *)
Record call := mkCall { c_env : env; c_path : bytes; c_target : target }.

Definition tstate := option target.   (* the converter field: which kind was used last (never read) *)

Definition step (st : tstate) (c : call) : tstate * result :=
  (Some (c_target c), transpile (c_env c) (c_path c) (c_target c)).

Fixpoint run_history (st : tstate) (cs : list call) : list result :=
  match cs with
  | [] => []
  | c :: r => let '(st', res) := step st c in res :: run_history st' r
  end.
