(* Proofs of the statements of Properties/C11.v that are not one-line consequences of a lemma elsewhere. *)
From Verif Require Import Base.Bytestr gen.Tables Lex.LexModel Lex.LexSpec Lex.LexProofs Lex.LexTotal Lex.LexLayout.
Open Scope N_scope.

Lemma C11_unterminated_proof : forall items raw cs,
  let tail := quote raw :: concat (map schar_text cs) in
  items_ok items tail = true -> forallb (schar_wf raw) cs = true ->
  replace_crlf (render items ++ tail) = render items ++ tail ->
  tokenize (render items ++ tail) = LexErr.
Proof.
  intros items raw cs tail Hok Hwf Hcr.
  apply tokenize_items_err; [exact Hok|exact Hcr|discriminate|apply lex_step_unterminated; exact Hwf].
Qed.

Lemma C11_unknown_character_proof : forall items c r,
  unknown_byte c = true -> items_ok items (c :: r) = true ->
  replace_crlf (render items ++ c :: r) = render items ++ c :: r ->
  tokenize (render items ++ c :: r) = LexErr.
Proof.
  intros items c r Hu Hok Hcr.
  apply tokenize_items_err; [exact Hok|exact Hcr|discriminate|apply lex_step_unknown; exact Hu].
Qed.
