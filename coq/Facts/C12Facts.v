(* Proofs of the statements of Properties/C12.v that are not one-line consequences of a lemma elsewhere. *)
From Verif Require Import Base.Bytestr gen.Tables Lex.LexModel Lex.LexSpec Lex.LexLayout Front.Squeeze Front.Ast
  Front.FrontModel Front.FrontFacts Back.Pipeline.
Open Scope N_scope.

Lemma C12_script_depends_on_tokens_only_proof : forall E path fe1 fe2 t,
  parser_input (tokenize (fe_content fe1)) = parser_input (tokenize (fe_content fe2)) ->
  transpile_entry E path fe1 t = transpile_entry E path fe2 t.
Proof. intros E path fe1 fe2 t H. unfold transpile_entry. rewrite (parse_entry_tokens E _ _ _ path fe1 fe2 H). reflexivity. Qed.
