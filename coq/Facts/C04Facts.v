(* Proofs of the statements of Properties/C04.v that are not one-line consequences of a lemma elsewhere. *)
From Verif Require Import Base.Bytestr Front.Ast Back.BashLines Back.Transpile Back.BashConv Back.BashSyntax Back.BashFacts.
Open Scope N_scope.

Lemma C04_calls_in_order_expression_proof : forall e used s vs s',
  t_expr bash_conv e used s = TOk vs s' ->
  exists ls, b_code s' = b_code s ++ ls /\ call_lines ls = calls_expr e.
Proof.
  intros e used s vs s' H. destruct (t_expr_ok e used s vs s' H) as (ls & E & _ & C).
  exists ls. split; [apply (x_code _ _ _ E)|exact C].
Qed.

Lemma C04_calls_in_order_statement_proof : forall st s s',
  t_stmt bash_conv st s = TOk tt s' -> emits st = true ->
  exists ls, b_code s' = b_code s ++ ls /\ call_lines ls = calls_stmt st.
Proof.
  intros st s s' H He. destruct (t_stmt_ok st s s' H He) as (ls & E & _ & _ & C).
  exists ls. split; [apply (sx_code _ _ _ E)|exact C].
Qed.

Lemma C04_calls_in_order_program_proof : forall body script st,
  emit_bash body = TOk script st -> emits_all body = true -> call_lines (b_code st) = calls_block body.
Proof. intros body script st H He. apply (emit_bash_well_formed body script st H He). Qed.
