(* Proofs of the statements of Properties/C07.v that are not one-line consequences of a lemma elsewhere. *)
From Verif Require Import Base.Bytestr gen.Tables Front.Ast Front.FrontModel Front.ScopeFacts Back.Pipeline Front.TableCheck gen.C07Table.
Open Scope N_scope.

Lemma c07_all_ok : forallb (entry_ok_gen []) c07_table = true.
Proof. vm_compute. reflexivity. Qed.

Lemma C07_table_proof : forall src acc, In (src, acc, []) c07_table ->
  verdict_of src = if acc then Accepted else Rejected.
Proof. intros src acc Hin. exact (table_entries [] c07_table c07_all_ok src acc Hin). Qed.
