(* Proofs of the statements of Properties/C18.v that are not one-line consequences of a lemma elsewhere. *)
From Verif Require Import Base.Bytestr Back.BashLines Back.BashConv Sem.BashSem Sem.Words Sem.AppArgs.
Open Scope N_scope.

Lemma C18_refuted_proof : forall e,
  arg_words e (app_arg (ALit [])) = Some []
  /\ arg_words e (app_arg (ALit (bs "a;b"))) = None /\ arg_words e (app_arg (ALit (bs "*"))) = None.
Proof. intro e. split; [exact (empty_argument_vanishes e)|exact (metacharacter_not_an_argument e)]. Qed.
