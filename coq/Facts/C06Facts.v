(* Proofs of the statements of Properties/C06.v that are not one-line consequences of a lemma elsewhere. *)
From Verif Require Import Base.Bytestr Front.Ast Front.FrontModel Back.Pipeline Front.TableCheck gen.C06Table.
Open Scope N_scope.

Lemma C06_table_proof : forall tail acc,
  In (tail, acc, []) c06_table ->
  verdict_of (c06_prelude ++ tail) = if acc then Accepted else Rejected.
Proof. exact (table_entries c06_prelude c06_table all_entries_ok). Qed.

Lemma C06_parse_independent_of_target_proof : forall E path fe t1 t2,
  (transpile_entry E path fe t1 = Failed /\ parse_entry E (S (length (e_fs E))) [] [] path false fe = PErr) ->
  transpile_entry E path fe t2 = Failed.
Proof. intros E path fe t1 t2 [_ H]. unfold transpile_entry. rewrite H. reflexivity. Qed.

Lemma C06_known_refuted_proof : exists e, In e c06_table /\ entry_finding_gen c06_prelude e = true.
Proof. exact (table_findings c06_prelude c06_table some_finding_witness). Qed.
