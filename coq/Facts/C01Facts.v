(* Proofs of the statements of Properties/C01.v that are not one-line consequences of a lemma elsewhere. *)
From Verif Require Import Base.Bytestr Base.DecFacts Front.Ast Front.FrontModel Back.BashLines Back.Transpile Back.BashConv
  Back.BashFacts Sem.Src Sem.SrcFacts Sem.BashSem Sem.ExprPreserve.
From Coq Require Import ZArith.
Open Scope N_scope.

Lemma C01_expression_preserved_proof : forall e sg used s vs s' b v,
  pure e = true ->
  t_expr bash_conv e used s = TOk vs s' -> peval sg e = Some v -> env_ok sg -> lits_ok e ->
  represents sg b s (vars_of e) -> hygienic s (vars_of e) ->
  exists ls a b',
    vs = [a] /\ b_code s' = b_code s ++ ls /\ exec_lines b ls = Some b' /\ atom_text b' a = text v /\
    (forall n, (forall k, (b_var_counter s <= k < b_var_counter s')%nat -> n <> helper_name s k) -> sh_get n b' = sh_get n b).
Proof.
  intros e sg used s vs s' b v Hp Ht Hv He Hl Hr Hh.
  destruct (expr_preserve e Hp sg used s vs s' b v Ht Hv He Hl Hr Hh) as [ls a b' O E M R V F S].
  exists ls, a, b'. split; [exact O|]. split; [apply (x_code _ _ _ E)|]. auto.
Qed.
