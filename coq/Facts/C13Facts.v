(* Proofs of the statements of Properties/C13.v that are not one-line consequences of a lemma elsewhere. *)
From Verif Require Import Base.Bytestr gen.Tables Lex.LexModel Lex.LexTotal Front.Squeeze Front.Ast Front.FrontModel
  Front.FrontFacts Back.Transpile Back.Pipeline.
Open Scope N_scope.

Lemma C13_script_xor_error_proof : forall E path t,
  (exists s, transpile E path t = Script s) \/ transpile E path t = Failed
  \/ transpile E path t = Crashed \/ transpile E path t = OutOfFuel.
Proof. intros. destruct (transpile E path t); eauto. Qed.

Lemma C13_missing_file_proof : forall E path t, aget path (e_fs E) = None -> transpile E path t = Failed.
Proof. intros E path t H. unfold transpile. rewrite H. reflexivity. Qed.

Lemma C13_lex_error_fails_proof : forall E path fe t,
  tokenize (fe_content fe) = LexErr -> transpile_entry E path fe t = Failed.
Proof. intros E path fe t H. unfold transpile_entry. cbn [parse_entry]. rewrite H. reflexivity. Qed.
