(* Proofs of the statements of Properties/C08.v that are not one-line consequences of a lemma elsewhere. *)
From Verif Require Import Base.Bytestr Front.Ast Back.BashLines Back.Transpile Back.BashConv Sem.BashSem Sem.Words.
Open Scope N_scope.

Lemma C08_eval_once_proof : forall e a r,
  atom_ok a = true ->
  dq_go e (bq ++ defer_exp (render_atom a) ++ bq ++ r) DPlain = option_map (app (q ++ render_atom a ++ q)) (dq_go e r DPlain)
  /\ dq e (render_atom a) = Some (atom_text e a).
Proof. intros e a r H. split; [exact (dq_eval_quoted e a r H)|exact (eval_scans_once e a H)]. Qed.

Lemma C08_literal_spliced_proof : forall t used s, t_expr bash_conv (EStr t) used s = TOk [ALit t] s.
Proof. reflexivity. Qed.

Lemma C08_neutral_literal_proof : forall e t, neutral t = true -> dq e t = Some t.
Proof. intros e t H. unfold dq. rewrite <- (app_nil_r t). rewrite (dq_neutral e t [] H). simpl. rewrite app_nil_r. reflexivity. Qed.
