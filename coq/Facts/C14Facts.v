(* Proofs of the statements of Properties/C14.v that are not one-line consequences of a lemma elsewhere. *)
From Verif Require Import Base.Bytestr gen.Tables Lex.LexModel Front.Squeeze Front.Ast Front.FrontModel Back.Pipeline.
Open Scope N_scope.

Lemma C14_history_proof : forall st cs,
  run_history st cs = map (fun c => transpile (c_env c) (c_path c) (c_target c)) cs.
Proof. intros st cs. revert st. induction cs as [|c cs IH]; intro st; [reflexivity|]. cbn [run_history step map]. f_equal. apply IH. Qed.

Lemma C14_interleaving_proof : forall st c1 c2 cs,
  nth 0 (run_history st (c1 :: c2 :: c1 :: cs)) Failed = nth 2 (run_history st (c1 :: c2 :: c1 :: cs)) Failed.
Proof. intros. rewrite C14_history_proof. reflexivity. Qed.
