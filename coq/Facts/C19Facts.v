(* Proofs of the statements of Properties/C19.v that are not one-line consequences of a lemma elsewhere. *)
From Verif Require Import Base.Bytestr Cli.Tsh Cli.TshProofs.
Open Scope N_scope.

Lemma C19_writes_exactly_proof : forall lib fs args o,
  parse_options fs args = Some o ->
  (forall t, In t (o_targets o) -> lib (o_in o) t <> None) ->
  snd (tsh lib fs args) = Exit0 /\
  forall p, fs_find p (fst (tsh lib fs args)) =
            match find (fun t => beq p (out_path o t)) (o_targets o) with
            | Some t => match lib (o_in o) t with Some s => Some (File s) | None => None end
            | None => fs_find p fs
            end.
Proof. intros lib fs args o Hp Hall. unfold tsh. rewrite Hp. apply emit_all_ok. exact Hall. Qed.

Lemma C19_bad_options_proof : forall lib fs args,
  parse_options fs args = None -> tsh lib fs args = (fs, ExitPanic).
Proof. intros lib fs args H. unfold tsh. rewrite H. reflexivity. Qed.

Lemma C19_failing_target_clean_proof : forall lib fs args o t,
  parse_options fs args = Some o -> In t (o_targets o) -> lib (o_in o) t = None ->
  snd (tsh lib fs args) = ExitPanic /\
  fs_find (out_path o t) (fst (tsh lib fs args)) = fs_find (out_path o t) fs.
Proof. intros lib fs args o t Hp Hin Hf. unfold tsh. rewrite Hp. apply emit_all_fail; assumption. Qed.

Lemma C19_nothing_else_touched_proof : forall lib fs args p,
  (forall o t, parse_options fs args = Some o -> In t (o_targets o) -> p <> out_path o t) ->
  fs_find p (fst (tsh lib fs args)) = fs_find p fs.
Proof.
  intros lib fs args p H. unfold tsh. destruct (parse_options fs args) as [o|] eqn:E; [|reflexivity].
  apply emit_all_other. intros t Ht. apply (H o t eq_refl Ht).
Qed.

Lemma C19_target_order_and_repetition_proof : forall lib fs o ts1 ts2,
  (forall t, In t ts1 <-> In t ts2) ->
  (forall t, In t ts1 -> lib (o_in o) t <> None) ->
  forall p, fs_find p (fst (emit_all lib o ts1 fs)) = fs_find p (fst (emit_all lib o ts2 fs)).
Proof.
  intros lib fs o ts1 ts2 Heq Hall p.
  destruct (emit_all_ok lib o ts1 fs Hall) as [_ H1].
  assert (forall t, In t ts2 -> lib (o_in o) t <> None) as Hall2 by (intros t Ht; apply Hall; apply Heq; exact Ht).
  destruct (emit_all_ok lib o ts2 fs Hall2) as [_ H2].
  rewrite H1, H2. rewrite (find_set_equiv o p ts1 ts2 Heq). reflexivity.
Qed.
