(* Proofs of the statements of Properties/C02.v that are not one-line consequences of a lemma elsewhere. *)
From Verif Require Import Base.Bytestr Front.Ast Back.BashLines Back.Transpile Back.BashConv Back.NameFacts Back.BashFacts.
Open Scope N_scope.

Lemma C02_call_lines_of_statement_proof : forall st s s',
  t_stmt bash_conv st s = TOk tt s' -> emits st = true ->
  exists ls, b_code s' = b_code s ++ ls /\ call_lines ls = calls_stmt st.
Proof.
  intros st s s' H He. destruct (t_stmt_ok st s s' H He) as (ls & E & _ & _ & C). exists ls. split; [apply (sx_code _ _ _ E)|exact C].
Qed.
