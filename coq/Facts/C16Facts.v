(* Proofs of the statements of Properties/C16.v that are not one-line consequences of a lemma elsewhere. *)
From Verif Require Import Base.Bytestr Front.Ast Back.BashLines Back.Transpile Back.BashConv Back.BashSyntax Back.BashFacts.
Open Scope N_scope.

Lemma C16_expression_lines_proof : forall e used s vs s',
  t_expr bash_conv e used s = TOk vs s' ->
  exists ls, ext s s' ls /\ forallb is_simple ls = true /\ call_lines ls = calls_expr e.
Proof. intros e used s vs s' H. exact (t_expr_ok e used s vs s' H). Qed.

Lemma C16_statement_block_proof : forall st s s',
  t_stmt bash_conv st s = TOk tt s' -> emits st = true ->
  exists ls, sext s s' ls /\ ls <> [] /\ (forall stk, stk <> [] -> check ls stk = Some (mark stk)) /\ call_lines ls = calls_stmt st.
Proof. intros st s s' H He. exact (t_stmt_ok st s s' H He). Qed.
