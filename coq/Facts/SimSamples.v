(* The hypotheses of the simulation theorems (C01, C02) are satisfiable: complete source derivations, contexts and
   name conditions for concrete programs with loops, conditionals, break, continue and function calls. *)
From Verif Require Import Base.Bytestr Front.Ast Back.BashLines Back.Transpile Back.BashConv Back.BashFacts Back.NameFacts
  Sem.Src Sem.SrcFacts Sem.BashSem Sem.ExprPreserve Sem.Words Sem.StmtPreserve Sem.FlatSem Sem.IfPreserve Sem.FlatLoop Sem.LoopPreserve Sem.CallPreserve.
From Coq Require Import ZArith Lia.
Open Scope N_scope.

Ltac in_tac := cbn; tauto.
Ltac incl_tac := let z := fresh "z" in let Hz := fresh "Hz" in
  intros z Hz; cbn in Hz; repeat (destruct Hz as [<-|Hz]; [in_tac|]); destruct Hz.
Ltac lits_tac := cbn; repeat split; first [exact I|unfold int64_min, int64_max; lia].
Ltac side_tac := split; [lits_tac|split; [reflexivity|incl_tac]].
Ltac sides_tac := let e := fresh "e" in let He := fresh "He" in
  intros e He; cbn in He; repeat (destruct He as [<-|He]; [side_tac|]); destruct He.
Ltac env_base := let y := fresh "y" in let w := fresh "w" in let H := fresh "H" in intros y w H; discriminate H.
Ltac env_tac := repeat (apply env_ok_supd; [|reflexivity|reflexivity|first [exact I|cbn; unfold int64_min, int64_max; lia]]); env_base.

Lemma env_ok_globals sg : env_ok sg -> env_ok (globals_of sg).
Proof. intros H y w Hw. unfold globals_of in Hw. destruct (v_global y); [exact (H y w Hw)|discriminate]. Qed.
Lemma env_ok_leave sg sgl : env_ok sg -> env_ok sgl -> env_ok (leave sg sgl).
Proof. intros H1 H2 y w Hw. unfold leave in Hw. destruct (v_global y); [exact (H2 y w Hw)|exact (H1 y w Hw)]. Qed.

Ltac range_tac := first [exact I|cbn; unfold int64_min, int64_max; lia].
Ltac env_all :=
  lazymatch goal with
  | |- env_ok (supd _ _ _) => apply env_ok_supd; [env_all|reflexivity|reflexivity|range_tac]
  | |- env_ok (globals_of _) => apply env_ok_globals; env_all
  | |- env_ok (leave _ _) => apply env_ok_leave; [env_all|env_all]
  | |- env_ok (bind ?p ?v ?sg) => let p' := eval hnf in p in let v' := eval hnf in v in change (env_ok (bind p' v' sg)); cbn [bind]; lazymatch goal with |- env_ok (bind ?p ?v _) => fail 1 "stuck bind" p v | _ => env_all end
  | |- env_ok (assign_all _ _ _) => cbn [assign_all]; lazymatch goal with |- env_ok (assign_all _ ?x ?v) => fail 1 "stuck assign_all" x v | _ => env_all end
  | |- env_ok ?sg =>
      first [ env_base
            | let sg' := eval hnf in sg in (tryif constr_eq sg sg' then fail 1 "env_ok: unknown shape" sg else (change sg with sg'; env_all)) ]
  end.

Ltac to_bools l :=
  lazymatch l with
  | @nil _ => constr:(@nil bool)
  | VBool ?b :: ?r => let t := to_bools r in constr:(b :: t)
  end.

Ltac ifsides_tac :=
  let cb := fresh "cb" in let Hc := fresh "Hc" in
  intros cb Hc; cbn in Hc; repeat (destruct Hc as [<-|Hc]; [cbn [fst]; side_tac|]); destruct Hc.

Ltac jloop_with jp :=
  first [ eapply l_exit; [cbn [incr_of opt_list]; jp|lazy; reflexivity]
        | eapply l_break; [cbn [incr_of opt_list]; jp|lazy; reflexivity|jp]
        | eapply l_return; [cbn [incr_of opt_list]; jp|lazy; reflexivity|jp]
        | eapply l_next; [cbn [incr_of opt_list]; jp|lazy; reflexivity|jp|first [left; reflexivity|right; reflexivity]|jloop_with jp] ].

Ltac subset_tac := let x := fresh "x" in let Hx := fresh "Hx" in intros x Hx; cbn in Hx; repeat (destruct Hx as [<-|Hx]; [in_tac|]); destruct Hx.

Ltac agree_tac :=
  let x := fresh "x" in let Hg := fresh "Hg" in let H := fresh "H" in
  intros x Hg; split; intro H; cbn in H; repeat (destruct H as [<-|H]; [first [discriminate Hg|in_tac]|]); destruct H.

(* a call of the function F (a fdef), the derivation of its body by jp *)
Ltac ret_tac := first [left; reflexivity|right; split; reflexivity].
Ltac scall_tac F jp :=
  cbn [scall_at]; exists F; eexists; eexists;
  split; [in_tac|]; split; [reflexivity|]; split; [vm_compute; lia|]; split; [vm_compute; lia|];
  split; [agree_tac|]; split; [reflexivity|]; split; [unfold F; cbn [fd_params bind]; env_all|];
  split; [cbn [fd_body fd_vars fd_params bind]; jp|]; split; [ret_tac|reflexivity].

Ltac scall_any F jp := lazymatch F with (?A, ?B) => first [scall_any A jp|scall_any B jp] | _ => scall_tac F jp end.

Ltac jprogF F :=
  lazymatch goal with
  | |- J _ _ (Prog []) _ _ _ _ => apply j_nil
  | |- J _ _ (Prog (SAssign [_] [_] :: _)) _ _ _ _ => eapply j_assign; [reflexivity|side_tac|in_tac|lazy; reflexivity|env_all|jprogF F]
  | |- J _ _ (Prog (SVarDef [_] [_] :: _)) _ _ _ _ => eapply j_define; [reflexivity|side_tac|in_tac|lazy; reflexivity|env_all|jprogF F]
  | |- J _ _ (Prog (SAssign _ _ :: _)) _ _ _ _ =>
      eapply j_assign_multi; [reflexivity|sides_tac|subset_tac|cbn; lia|reflexivity|lazy; reflexivity|cbn [assign_all]; env_all|cbn [assign_all]; jprogF F]
  | |- J _ _ (Prog (SVarDef _ _ :: _)) _ _ _ _ =>
      eapply j_define_multi; [reflexivity|sides_tac|subset_tac|cbn; lia|reflexivity|lazy; reflexivity|cbn [assign_all]; env_all|cbn [assign_all]; jprogF F]
  | |- J _ _ (Prog (SPrint _ :: _)) _ _ _ _ => eapply j_print; [reflexivity|sides_tac|lazy; reflexivity|jprogF F]
  | |- J _ _ (Prog (SVarDefCall [_] (ECall _ [_] _) :: _)) _ _ _ _ =>
      eapply j_call_define; [reflexivity|sides_tac|in_tac|lazy; reflexivity|scall_any F ltac:(idtac; jprogF F)|env_all|jprogF F]
  | |- J _ _ (Prog (SAssignCall [_] (ECall _ [_] _) :: _)) _ _ _ _ =>
      eapply j_call_assign; [reflexivity|sides_tac|in_tac|lazy; reflexivity|scall_any F ltac:(idtac; jprogF F)|env_all|jprogF F]
  | |- J _ _ (Prog (SVarDefCall _ _ :: _)) _ _ _ _ =>
      eapply j_call_define_multi; [reflexivity|sides_tac|subset_tac|lazy; reflexivity|scall_any F ltac:(idtac; jprogF F)|reflexivity|reflexivity
                                  |cbn [assign_all]; env_all|cbn [assign_all]; jprogF F]
  | |- J _ _ (Prog (SAssignCall _ _ :: _)) _ _ _ _ =>
      eapply j_call_assign_multi; [reflexivity|sides_tac|subset_tac|lazy; reflexivity|scall_any F ltac:(idtac; jprogF F)|reflexivity|reflexivity
                                  |cbn [assign_all]; env_all|cbn [assign_all]; jprogF F]
  | |- J _ _ (Prog (SExpr (ECall _ _ _) :: _)) _ _ _ _ =>
      eapply j_call_stmt; [reflexivity|sides_tac|lazy; reflexivity|scall_any F ltac:(idtac; jprogF F)|env_all|jprogF F]
  | |- J _ _ (Prog (SReturn _ :: _)) _ _ _ _ => eapply j_return; [reflexivity|sides_tac|lazy; reflexivity|reflexivity]
  | |- J _ _ (Prog (SBreak :: _)) _ _ _ _ => apply j_break; reflexivity
  | |- J _ _ (Prog (SContinue :: _)) _ _ _ _ => apply j_continue; reflexivity
  | |- J _ _ (Prog (SIf ((?c0, ?b0) :: ?elifs) ?els :: _)) ?sg _ _ _ =>
      let r := eval lazy in (pevals sg (c0 :: map fst elifs)) in
      lazymatch r with
      | Some ?l => let bl := to_bools l in
          first [ eapply (j_if_next _ _ sg c0 b0 elifs els bl);
                    [reflexivity|ifsides_tac|lazy; reflexivity|cbn [pick map snd fst]; jprogF F|jprogF F]
                | eapply (j_if_stop _ _ sg c0 b0 elifs els bl);
                    [reflexivity|ifsides_tac|lazy; reflexivity|cbn [pick map snd fst]; jprogF F|discriminate|reflexivity] ]
      end
  | |- J _ _ (Prog (SFor _ _ _ _ :: _)) _ _ _ _ =>
      first [ eapply j_for; [reflexivity|side_tac|cbn [opt_list]; jprogF F|jloop_with ltac:(idtac; jprogF F)|jprogF F]
            | eapply j_for_return; [reflexivity|side_tac|reflexivity|cbn [opt_list]; jprogF F|jloop_with ltac:(idtac; jprogF F)] ]
  | |- J _ _ (Prog ?b) _ _ _ _ => let b' := eval hnf in b in (tryif constr_eq b b' then fail 1 "no rule for" b else (change b with b'; jprogF F))
  end.
Ltac jprog := jprogF tt.

Ltac names_tac := let H := fresh "H" in intro H; cbn in H; inversion H.

Definition no_calls : list var -> bytes -> list value -> senv -> list value -> senv -> bytes -> Prop := fun _ _ _ _ _ _ _ => False.
Definition sg_empty : senv := fun _ => None.

(* s := 0; for i := 0; i < 10; i++ { if i == 2 { continue }; if i > 4 { break }; s = s + i; print(i, s) }; print("end", s) *)
Definition vi : var := mkVar (bs "i") (T DInt) true false.
Definition vs0 : var := mkVar (bs "s") (T DInt) true false.
Definition XS3 : list var := [vs0; vi].
Definition prog3 : list stmt :=
  [SVarDef [vs0] [EInt 0];
   SFor (Some (SVarDef [vi] [EInt 0])) (ECompare (EVar vi) CLt (EInt 10)) (Some (SAssign [vi] [EBinary (EVar vi) OpAdd (EInt 1)]))
     [SIf [(ECompare (EVar vi) CEq (EInt 2), [SContinue])] [];
      SIf [(ECompare (EVar vi) CGt (EInt 4), [SBreak])] [];
      SAssign [vs0] [EBinary (EVar vs0) OpAdd (EVar vi)];
      SPrint [EVar vi; EVar vs0]];
   SPrint [EStr (bs "end"); EVar vs0]].

Lemma ctx3 : ctx_ok XS3 sg_empty [] b_init.
Proof.
  constructor.
  - intros x Hx. cbn in Hx. repeat (destruct Hx as [<-|Hx]; [reflexivity|]). destruct Hx.
  - intros x v _ Hv. discriminate Hv.
  - intros x k Hx. cbn in Hx. repeat (destruct Hx as [<-|Hx]; [names_tac|]). destruct Hx.
  - intros y z Hy Hz. cbn in Hy, Hz.
    repeat (destruct Hy as [<-|Hy]; [repeat (destruct Hz as [<-|Hz]; [first [intros _; reflexivity|names_tac]|]); destruct Hz|]). destruct Hy.
Qed.

Lemma fresh3 : fresh_flags 0 0 XS3 b_init.
Proof.
  split; [|split; [|split; [|split]]].
  - intros x k Hx. cbn in Hx. repeat (destruct Hx as [<-|Hx]; [names_tac|]). destruct Hx.
  - intros x i Hx. cbn in Hx. repeat (destruct Hx as [<-|Hx]; [names_tac|]). destruct Hx.
  - apply le_n.
  - intros x c y _ Hc. inversion Hc.
  - intros x i Hx. cbn in Hx. repeat (destruct Hx as [<-|Hx]; [names_tac|]). destruct Hx.
Qed.

Lemma loop_sample_derivation :
  exists sgF out, J no_calls XS3 (Prog prog3) sg_empty sgF out SN /\
                  out = bs "0 0" ++ [10] ++ bs "1 1" ++ [10] ++ bs "3 4" ++ [10] ++ bs "4 8" ++ [10] ++ bs "end 8" ++ [10].
Proof. eexists. eexists. split; [unfold prog3; jprog|vm_compute; reflexivity]. Qed.

(* the theorem applied to the sample: the emitted lines print exactly this *)
Lemma loop_sample_applies :
  match go_fix prog3 b_init with
  | TOk _ s' => exists b', lruns (fun _ _ _ _ => None) [] [] [] (b_code s')
                  (b', bs "0 0" ++ [10] ++ bs "1 1" ++ [10] ++ bs "3 4" ++ [10] ++ bs "4 8" ++ [10] ++ bs "end 8" ++ [10])
  | _ => False
  end.
Proof.
  destruct loop_sample_derivation as (sgF & out & HJ & ->).
  destruct (go_fix prog3 b_init) as [u s'| |] eqn:E; [|vm_compute in E; discriminate E|vm_compute in E; discriminate E].
  assert (fuel_mono (fun _ _ _ _ => @None (shenv * bytes))) as Hm by (intros f f' n a e r _ H; discriminate H).
  assert (call_refines (fun _ _ _ _ => None) 0 0 no_calls) as Hr by (intros XS f vals sg rvals sg1 o b s H; destruct H).
  destruct (loops_preserved (fun _ _ _ _ => None) [] Hm 0 0 no_calls Hr XS3 sg_empty prog3 sgF _ b_init u s' [] HJ E eq_refl
              ltac:(intros y w H; discriminate H) ctx3 fresh3) as (X & b' & Hx & Hrun & _).
  exists b'. cbn [b_init b_code app] in Hx. rewrite Hx. exact Hrun.
Qed.

(* ---- a program with a function ---- *)
(* func add(a int, b int) int { c := a + b; print("in", c); return c }   g := 1; y := add(g, 41); print(y, g); add(y, y) *)
Definition pa : var := mkVar (bs "a") (T DInt) false false.
Definition pb : var := mkVar (bs "b") (T DInt) false false.
Definition lc : var := mkVar (bs "c") (T DInt) false false.
Definition gg : var := mkVar (bs "g") (T DInt) true false.
Definition gy : var := mkVar (bs "y") (T DInt) true false.
Definition add_body : list stmt := [SVarDef [lc] [EBinary (EVar pa) OpAdd (EVar pb)]; SPrint [EStr (bs "in"); EVar lc]; SReturn [EVar lc]].
Definition add_def : stmt := SFunc (bs "add") [T DInt] [pa; pb] add_body false.
Definition main_add : list stmt :=
  [SVarDef [gg] [EInt 1];
   SVarDefCall [gy] (ECall (bs "add") [T DInt] [EVar gg; EInt 41]);
   SPrint [EVar gy; EVar gg];
   SExpr (ECall (bs "add") [T DInt] [EVar gy; EVar gy])].
Definition st_of (r : tres bstate unit) : bstate := match r with TOk _ s => s | _ => b_init end.
Definition s_add_f : bstate := cv_func_start bstate atom bash_conv (bs "add") [bs "a"; bs "b"] [T DInt] b_init.
Definition s_add_r : bstate := st_of (go_fix add_body s_add_f).
Definition s_main : bstate := st_of (t_stmt bash_conv add_def b_init).
Definition s_end : bstate := st_of (go_fix main_add s_main).
Definition script_add : list line := b_code s_end.
Definition XSf_add : list var := [gg; gy; pa; pb; lc].
Definition XS_main : list var := [gg; gy].
Definition F_add : fdef := mkFdef (bs "add") [pa; pb] add_body XSf_add s_add_f s_add_r.

Ltac cases_in H tac := cbn in H; repeat (destruct H as [<-|H]; [tac|]); destruct H.

Lemma add_fun_ok : fun_ok script_add F_add.
Proof.
  unfold fun_ok. cbn [F_add fd_sf fd_sr fd_vars fd_params fd_body fd_name].
  split; [vm_compute; lia|].
  split; [intros x Hx; cases_in Hx ltac:(reflexivity)|].
  split; [intros x k Hx; cases_in Hx ltac:(names_tac)|].
  split.
  { intros y z Hy Hz. cbn in Hy, Hz.
    repeat (destruct Hy as [<-|Hy]; [repeat (destruct Hz as [<-|Hz]; [first [intros _; reflexivity|names_tac]|]); destruct Hz|]). destruct Hy. }
  split.
  { split; [|split; [|split; [|split]]].
    - intros x k Hx. cases_in Hx ltac:(names_tac).
    - intros x i Hx. cases_in Hx ltac:(names_tac).
    - apply le_n.
    - intros x c y Hx Hc. assert (c = 0%nat) as -> by (vm_compute in Hc; lia). cases_in Hx ltac:(names_tac).
    - intros x i Hx. cases_in Hx ltac:(names_tac). }
  split; [intros p Hp; cases_in Hp ltac:(split; [reflexivity|in_tac])|].
  split; [vm_compute; reflexivity|]. split; [reflexivity|].
  eexists. eexists. split; vm_compute; reflexivity.
Qed.

Lemma ctx_main : ctx_ok XS_main sg_empty [] s_main.
Proof.
  constructor.
  - intros x Hx. cases_in Hx ltac:(reflexivity).
  - intros x v _ Hv. discriminate Hv.
  - intros x k Hx. cases_in Hx ltac:(names_tac).
  - intros y z Hy Hz. cbn in Hy, Hz.
    repeat (destruct Hy as [<-|Hy]; [repeat (destruct Hz as [<-|Hz]; [first [intros _; reflexivity|names_tac]|]); destruct Hz|]). destruct Hy.
Qed.

Lemma fresh_main : fresh_flags 0 2 XS_main s_main.
Proof.
  split; [|split; [|split; [|split]]].
  - intros x k Hx. cases_in Hx ltac:(names_tac).
  - intros x i Hx. cases_in Hx ltac:(names_tac).
  - apply le_n.
  - intros x c y Hx _. cases_in Hx ltac:(names_tac).
  - intros x i Hx. cases_in Hx ltac:(names_tac).
Qed.

Lemma call_sample_derivation :
  exists sgF out, J (scall_at [F_add] 1 0 2) XS_main (Prog main_add) sg_empty sgF out SN /\
                  out = bs "in 42" ++ [10] ++ bs "42 1" ++ [10] ++ bs "in 84" ++ [10].
Proof. eexists. eexists. split; [unfold main_add; jprogF F_add|vm_compute; reflexivity]. Qed.

(* the theorem applied: the script's lines, with its own function as the call oracle, print this *)
Lemma call_sample_applies :
  exists X b', b_code s_end = b_code s_main ++ X /\
    lruns (call_of script_add 1) [] [] [] X (b', bs "in 42" ++ [10] ++ bs "42 1" ++ [10] ++ bs "in 84" ++ [10]).
Proof.
  destruct call_sample_derivation as (sgF & out & HJ & ->).
  assert (forall F, In F [F_add] -> fun_ok script_add F) as Hok by (intros F [<-|[]]; exact add_fun_ok).
  destruct (calls_preserved [F_add] script_add 1 0 2 [] Hok XS_main sg_empty main_add sgF _ s_main tt s_end [] HJ
              ltac:(vm_compute; reflexivity) eq_refl ltac:(intros y w H; discriminate H) ctx_main fresh_main) as (X & b' & Hx & Hrun & _).
  exists X, b'. split; [exact Hx|exact Hrun].
Qed.

(* ---- simultaneous assignment and a function with two results ----
   func divmod(a int, b int) (int, int) { return a / b, a % b }
   x := 17; y := 5; x, y = y, x; q, r := divmod(x, y); print(x, y, q, r) *)
Definition gx : var := mkVar (bs "x") (T DInt) true false.
Definition gy2 : var := mkVar (bs "y") (T DInt) true false.
Definition gq : var := mkVar (bs "q") (T DInt) true false.
Definition gr : var := mkVar (bs "r") (T DInt) true false.
Definition dm_body : list stmt := [SReturn [EBinary (EVar pa) OpDiv (EVar pb); EBinary (EVar pa) OpMod (EVar pb)]].
Definition dm_def : stmt := SFunc (bs "divmod") [T DInt; T DInt] [pa; pb] dm_body false.
Definition main_dm : list stmt :=
  [SVarDef [gx] [EInt 17]; SVarDef [gy2] [EInt 5];
   SAssign [gx; gy2] [EVar gy2; EVar gx];
   SVarDefCall [gq; gr] (ECall (bs "divmod") [T DInt; T DInt] [EVar gx; EVar gy2]);
   SPrint [EVar gx; EVar gy2; EVar gq; EVar gr]].
Definition s_dm_f : bstate := cv_func_start bstate atom bash_conv (bs "divmod") [bs "a"; bs "b"] [T DInt; T DInt] b_init.
Definition s_dm_r : bstate := st_of (go_fix dm_body s_dm_f).
Definition s_dm_main : bstate := st_of (t_stmt bash_conv dm_def b_init).
Definition s_dm_end : bstate := st_of (go_fix main_dm s_dm_main).
Definition script_dm : list line := b_code s_dm_end.
Definition XSf_dm : list var := [gx; gy2; gq; gr; pa; pb].
Definition XS_dm : list var := [gx; gy2; gq; gr].
Definition F_dm : fdef := mkFdef (bs "divmod") [pa; pb] dm_body XSf_dm s_dm_f s_dm_r.

Lemma dm_fun_ok : fun_ok script_dm F_dm.
Proof.
  unfold fun_ok. cbn [F_dm fd_sf fd_sr fd_vars fd_params fd_body fd_name].
  split; [vm_compute; lia|].
  split; [intros x Hx; cases_in Hx ltac:(reflexivity)|].
  split; [intros x k Hx; cases_in Hx ltac:(names_tac)|].
  split.
  { intros y z Hy Hz. cbn in Hy, Hz.
    repeat (destruct Hy as [<-|Hy]; [repeat (destruct Hz as [<-|Hz]; [first [intros _; reflexivity|names_tac]|]); destruct Hz|]). destruct Hy. }
  split.
  { split; [|split; [|split; [|split]]].
    - intros x k Hx. cases_in Hx ltac:(names_tac).
    - intros x i Hx. cases_in Hx ltac:(names_tac).
    - apply le_n.
    - intros x c y Hx Hc. assert (c = 0%nat) as -> by (vm_compute in Hc; lia). cases_in Hx ltac:(names_tac).
    - intros x i Hx. cases_in Hx ltac:(names_tac). }
  split; [intros p Hp; cases_in Hp ltac:(split; [reflexivity|in_tac])|].
  split; [vm_compute; reflexivity|]. split; [reflexivity|].
  eexists. eexists. split; vm_compute; reflexivity.
Qed.

Lemma ctx_dm : ctx_ok XS_dm sg_empty [] s_dm_main.
Proof.
  constructor.
  - intros x Hx. cases_in Hx ltac:(reflexivity).
  - intros x v _ Hv. discriminate Hv.
  - intros x k Hx. cases_in Hx ltac:(names_tac).
  - intros y z Hy Hz. cbn in Hy, Hz.
    repeat (destruct Hy as [<-|Hy]; [repeat (destruct Hz as [<-|Hz]; [first [intros _; reflexivity|names_tac]|]); destruct Hz|]). destruct Hy.
Qed.

Lemma fresh_dm : fresh_flags 0 2 XS_dm s_dm_main.
Proof.
  split; [|split; [|split; [|split]]].
  - intros x k Hx. cases_in Hx ltac:(names_tac).
  - intros x i Hx. cases_in Hx ltac:(names_tac).
  - apply le_n.
  - intros x c y Hx _. cases_in Hx ltac:(names_tac).
  - intros x i Hx. cases_in Hx ltac:(names_tac).
Qed.

Lemma swap_sample_derivation :
  exists sgF out, J (scall_at [F_dm] 1 0 2) XS_dm (Prog main_dm) sg_empty sgF out SN /\ out = bs "5 17 0 5" ++ [10].
Proof. eexists. eexists. split; [unfold main_dm; jprogF F_dm|vm_compute; reflexivity]. Qed.

Lemma swap_sample_applies :
  exists X b', b_code s_dm_end = b_code s_dm_main ++ X /\ lruns (call_of script_dm 1) [] [] [] X (b', bs "5 17 0 5" ++ [10]).
Proof.
  destruct swap_sample_derivation as (sgF & out & HJ & ->).
  assert (forall F, In F [F_dm] -> fun_ok script_dm F) as Hok by (intros F [<-|[]]; exact dm_fun_ok).
  destruct (calls_preserved [F_dm] script_dm 1 0 2 [] Hok XS_dm sg_empty main_dm sgF _ s_dm_main tt s_dm_end [] HJ
              ltac:(vm_compute; reflexivity) eq_refl ltac:(intros y w H; discriminate H) ctx_dm fresh_dm) as (X & b' & Hx & Hrun & _).
  exists X, b'. split; [exact Hx|exact Hrun].
Qed.

(* ---- return inside a branch, and a function without results ----
   func abs(a int) int { if a < 0 { return 0 - a }; return a }   func show(a int) { print("v", a) }
   x := abs(0 - 5); y := abs(3); show(x + y) *)
Definition abs_body : list stmt :=
  [SIf [(ECompare (EVar pa) CLt (EInt 0), [SReturn [EBinary (EInt 0) OpSub (EVar pa)]])] []; SReturn [EVar pa]].
Definition show_body : list stmt := [SPrint [EStr (bs "v"); EVar pa]].
Definition abs_def : stmt := SFunc (bs "abs") [T DInt] [pa] abs_body false.
Definition show_def : stmt := SFunc (bs "show") [] [pa] show_body false.
Definition main_abs : list stmt :=
  [SVarDefCall [gx] (ECall (bs "abs") [T DInt] [EBinary (EInt 0) OpSub (EInt 5)]);
   SVarDefCall [gy2] (ECall (bs "abs") [T DInt] [EInt 3]);
   SExpr (ECall (bs "show") [] [EBinary (EVar gx) OpAdd (EVar gy2)])].
Definition s_abs_f : bstate := cv_func_start bstate atom bash_conv (bs "abs") [bs "a"] [T DInt] b_init.
Definition s_abs_r : bstate := st_of (go_fix abs_body s_abs_f).
Definition s_abs_done : bstate := st_of (t_stmt bash_conv abs_def b_init).
Definition s_show_f : bstate := cv_func_start bstate atom bash_conv (bs "show") [bs "a"] [] s_abs_done.
Definition s_show_r : bstate := st_of (go_fix show_body s_show_f).
Definition s_abs_main : bstate := st_of (t_stmt bash_conv show_def s_abs_done).
Definition s_abs_end : bstate := st_of (go_fix main_abs s_abs_main).
Definition script_abs : list line := b_code s_abs_end.
Definition XS_abs : list var := [gx; gy2].
Definition XSf_abs : list var := [gx; gy2; pa].
Definition F_abs : fdef := mkFdef (bs "abs") [pa] abs_body XSf_abs s_abs_f s_abs_r.
Definition F_show : fdef := mkFdef (bs "show") [pa] show_body XSf_abs s_show_f s_show_r.

Ltac fun_ok_tac :=
  unfold fun_ok; cbn [F_abs F_show fd_sf fd_sr fd_vars fd_params fd_body fd_name];
  split; [vm_compute; lia|];
  split; [let x := fresh "x" in let Hx := fresh "Hx" in intros x Hx; cases_in Hx ltac:(reflexivity)|];
  split; [let x := fresh "x" in let k := fresh "k" in let Hx := fresh "Hx" in intros x k Hx; cases_in Hx ltac:(names_tac)|];
  split; [let y := fresh "y" in let z := fresh "z" in let Hy := fresh "Hy" in let Hz := fresh "Hz" in
          intros y z Hy Hz; cbn in Hy, Hz;
          repeat (destruct Hy as [<-|Hy]; [repeat (destruct Hz as [<-|Hz]; [first [intros _; reflexivity|names_tac]|]); destruct Hz|]); destruct Hy|];
  split; [split; [|split; [|split; [|split]]];
          [ let x := fresh "x" in let k := fresh "k" in let Hx := fresh "Hx" in intros x k Hx; cases_in Hx ltac:(names_tac)
          | let x := fresh "x" in let k := fresh "k" in let Hx := fresh "Hx" in intros x k Hx; cases_in Hx ltac:(names_tac)
          | apply le_n
          | let x := fresh "x" in let c := fresh "c" in let y := fresh "y" in let Hx := fresh "Hx" in let Hc := fresh "Hc" in
            intros x c y Hx Hc; vm_compute in Hc;
            repeat (destruct c as [|c]; [cases_in Hx ltac:(names_tac)|]); exfalso; lia
          | let x := fresh "x" in let k := fresh "k" in let Hx := fresh "Hx" in intros x k Hx; cases_in Hx ltac:(names_tac) ]|];
  split; [let q := fresh "q" in let Hq := fresh "Hq" in intros q Hq; cases_in Hq ltac:(split; [reflexivity|in_tac])|];
  split; [vm_compute; reflexivity|]; split; [reflexivity|];
  eexists; eexists; split; vm_compute; reflexivity.

Lemma abs_fun_ok : fun_ok script_abs F_abs.
Proof. fun_ok_tac. Qed.
Lemma show_fun_ok : fun_ok script_abs F_show.
Proof. fun_ok_tac. Qed.

Lemma ctx_abs : ctx_ok XS_abs sg_empty [] s_abs_main.
Proof.
  constructor.
  - intros x Hx. cases_in Hx ltac:(reflexivity).
  - intros x v _ Hv. discriminate Hv.
  - intros x k Hx. cases_in Hx ltac:(names_tac).
  - intros y z Hy Hz. cbn in Hy, Hz.
    repeat (destruct Hy as [<-|Hy]; [repeat (destruct Hz as [<-|Hz]; [first [intros _; reflexivity|names_tac]|]); destruct Hz|]). destruct Hy.
Qed.

Lemma fresh_abs : fresh_flags 0 3 XS_abs s_abs_main.
Proof.
  split; [|split; [|split; [|split]]].
  - intros x k Hx. cases_in Hx ltac:(names_tac).
  - intros x i Hx. cases_in Hx ltac:(names_tac).
  - apply le_n.
  - intros x c y Hx _. cases_in Hx ltac:(names_tac).
  - intros x i Hx. cases_in Hx ltac:(names_tac).
Qed.

Lemma abs_sample_derivation :
  exists sgF out, J (scall_at [F_abs; F_show] 1 0 3) XS_abs (Prog main_abs) sg_empty sgF out SN /\ out = bs "v 8" ++ [10].
Proof. eexists. eexists. split; [unfold main_abs; jprogF (F_abs, F_show)|vm_compute; reflexivity]. Qed.

Lemma abs_sample_applies :
  exists X b', b_code s_abs_end = b_code s_abs_main ++ X /\ lruns (call_of script_abs 1) [] [] [] X (b', bs "v 8" ++ [10]).
Proof.
  destruct abs_sample_derivation as (sgF & out & HJ & ->).
  assert (forall F, In F [F_abs; F_show] -> fun_ok script_abs F) as Hok by (intros F [<-|[<-|[]]]; [exact abs_fun_ok|exact show_fun_ok]).
  destruct (calls_preserved [F_abs; F_show] script_abs 1 0 3 [] Hok XS_abs sg_empty main_abs sgF _ s_abs_main tt s_abs_end [] HJ
              ltac:(vm_compute; reflexivity) eq_refl ltac:(intros y w H; discriminate H) ctx_abs fresh_abs) as (X & b' & Hx & Hrun & _).
  exists X, b'. split; [exact Hx|exact Hrun].
Qed.

(* ---- len of a string ----   s := "hello" + "!"; n := len(s); print(n, len(s + s)) *)
Definition gs : var := mkVar (bs "s") (T DString) true false.
Definition gn : var := mkVar (bs "n") (T DInt) true false.
Definition prog_len : list stmt :=
  [SVarDef [gs] [EBinary (EStr (bs "hello")) OpAdd (EStr (bs "!"))];
   SVarDef [gn] [ELen (EVar gs)];
   SPrint [EVar gn; ELen (EBinary (EVar gs) OpAdd (EVar gs))]].

(* ---- return inside a loop ----
   func find(n int) int { for i := 0; i < 10; i++ { if i * i >= n { return i } }; return 0 - 1 }   r := find(10); print(r) *)
Definition li : var := mkVar (bs "i") (T DInt) false false.
Definition pn : var := mkVar (bs "n") (T DInt) false false.
Definition find_body : list stmt :=
  [SFor (Some (SVarDef [li] [EInt 0])) (ECompare (EVar li) CLt (EInt 10)) (Some (SAssign [li] [EBinary (EVar li) OpAdd (EInt 1)]))
     [SIf [(ECompare (EBinary (EVar li) OpMul (EVar li)) CGe (EVar pn), [SReturn [EVar li]])] []];
   SReturn [EBinary (EInt 0) OpSub (EInt 1)]].
Definition find_def : stmt := SFunc (bs "find") [T DInt] [pn] find_body false.
Definition main_find : list stmt := [SVarDefCall [gr] (ECall (bs "find") [T DInt] [EInt 10]); SPrint [EVar gr]].
Definition s_find_f : bstate := cv_func_start bstate atom bash_conv (bs "find") [bs "n"] [T DInt] b_init.
Definition s_find_r : bstate := st_of (go_fix find_body s_find_f).
Definition s_find_main : bstate := st_of (t_stmt bash_conv find_def b_init).
Definition s_find_end : bstate := st_of (go_fix main_find s_find_main).
Definition script_find : list line := b_code s_find_end.
Definition XS_find : list var := [gr].
Definition XSf_find : list var := [gr; pn; li].
Definition F_find : fdef := mkFdef (bs "find") [pn] find_body XSf_find s_find_f s_find_r.

Lemma find_fun_ok : fun_ok script_find F_find.
Proof.
  unfold fun_ok. cbn [F_find fd_sf fd_sr fd_vars fd_params fd_body fd_name].
  split; [vm_compute; lia|].
  split; [intros x Hx; cases_in Hx ltac:(reflexivity)|].
  split; [intros x k Hx; cases_in Hx ltac:(names_tac)|].
  split.
  { intros y z Hy Hz. cbn in Hy, Hz.
    repeat (destruct Hy as [<-|Hy]; [repeat (destruct Hz as [<-|Hz]; [first [intros _; reflexivity|names_tac]|]); destruct Hz|]). destruct Hy. }
  split.
  { split; [|split; [|split; [|split]]].
    - intros x k Hx. cases_in Hx ltac:(names_tac).
    - intros x i Hx. cases_in Hx ltac:(names_tac).
    - apply le_n.
    - intros x c y Hx Hc. assert (c = 0%nat) as -> by (vm_compute in Hc; lia). cases_in Hx ltac:(names_tac).
    - intros x i Hx. cases_in Hx ltac:(names_tac). }
  split; [intros p Hp; cases_in Hp ltac:(split; [reflexivity|in_tac])|].
  split; [vm_compute; reflexivity|]. split; [reflexivity|].
  eexists. eexists. split; vm_compute; reflexivity.
Qed.

Lemma toplevel_names s : b_funcs s = 0%nat ->
  (forall x, user_name s x = v_name x) /\ (forall k, helper_name s k = bs "_h" ++ dec_nat k) /\ (forall i, ma_var s i = ma_name i).
Proof. intro H. repeat split; intros; unfold user_name, helper_name, ma_var; apply var_name_toplevel; exact H. Qed.

Lemma ctx_find : ctx_ok XS_find sg_empty [] s_find_main.
Proof.
  destruct (toplevel_names s_find_main ltac:(vm_compute; reflexivity)) as (Hu & Hh & Hm).
  constructor.
  - intros x Hx. unfold var_fine. rewrite Hu. cases_in Hx ltac:(reflexivity).
  - intros x v _ Hv. discriminate Hv.
  - intros x k Hx. rewrite Hu, Hh. cases_in Hx ltac:(names_tac).
  - intros y z Hy Hz. rewrite !Hu. cbn in Hy, Hz.
    repeat (destruct Hy as [<-|Hy]; [repeat (destruct Hz as [<-|Hz]; [first [intros _; reflexivity|names_tac]|]); destruct Hz|]). destruct Hy.
Qed.

Lemma fresh_find : fresh_flags 1 2 XS_find s_find_main.
Proof.
  destruct (toplevel_names s_find_main ltac:(vm_compute; reflexivity)) as (Hu & Hh & Hm).
  split; [|split; [|split; [|split]]].
  - intros x k Hx. rewrite Hu. cases_in Hx ltac:(names_tac).
  - intros x i Hx. rewrite Hu. cases_in Hx ltac:(names_tac).
  - vm_compute. lia.
  - intros x c y Hx _. rewrite Hu. cases_in Hx ltac:(names_tac).
  - intros x i Hx. rewrite Hu, Hm. cases_in Hx ltac:(names_tac).
Qed.

Lemma find_body_derivation :
  exists sgl out g, J (scall_at [F_find] 0 0 1) XSf_find (Prog find_body) (bind [pn] [VInt 10] (globals_of sg_empty)) sgl out g.
Proof. eexists. eexists. eexists. unfold find_body. Timeout 60 jprogF F_find. Qed.
Lemma find_sample_derivation :
  exists sgF out, J (scall_at [F_find] 1 1 2) XS_find (Prog main_find) sg_empty sgF out SN /\ out = bs "4" ++ [10].
Proof. eexists. eexists. split; [unfold main_find; jprogF F_find|vm_compute; reflexivity]. Qed.

Lemma find_sample_applies :
  exists X b', b_code s_find_end = b_code s_find_main ++ X /\ lruns (call_of script_find 1) [] [] [] X (b', bs "4" ++ [10]).
Proof.
  destruct find_sample_derivation as (sgF & out & HJ & ->).
  assert (forall F, In F [F_find] -> fun_ok script_find F) as Hok by (intros F [<-|[]]; exact find_fun_ok).
  destruct (calls_preserved [F_find] script_find 1 1 2 [] Hok XS_find sg_empty main_find sgF _ s_find_main tt s_find_end [] HJ
              ltac:(vm_compute; reflexivity) eq_refl ltac:(intros y w H; discriminate H) ctx_find fresh_find) as (X & b' & Hx & Hrun & _).
  exists X, b'. split; [exact Hx|exact Hrun].
Qed.
