(* A computed witness for the recorded C05 finding: panic inside a function does not end the Batch script.
   The program is parsed and translated by the models; the Batch script runs under the cmd.exe model, the
   program itself under the reference semantics. *)
From Verif Require Import Base.Bytestr Front.Ast Front.FrontModel Back.Transpile Back.BatchConv Front.TableCheck Sem.Src Cmd.CmdModel.
From Coq Require Import ZArith.
Open Scope N_scope.

Definition panic_src : bytes := bs "func f() {
	panic(""boom"")
}
print(""before"")
f()
print(""after"")
".

Definition panic_runs : option (cmd_result * run_result) :=
  match parse_main (table_env panic_src) (bs "/V/main.tsh") with
  | FrontModel.POk body _ _ _ =>
      match emit_batch body with
      | TOk script _ => Some (cmd_run 5000 script, Src.run 2000 [] [] body)
      | _ => None
      end
  | _ => None
  end.

Definition lines3 (a b c : bytes) : bytes := a ++ [10] ++ b ++ [10] ++ c ++ [10].

Theorem panic_in_function_continues :
  panic_runs = Some (CmdRan (lines3 (bs "before") (bs "panic: boom") (bs "after")) 1%Z,
                     Ran (bs "before" ++ [10] ++ bs "panic: boom" ++ [10]) 1%Z []).
Proof. vm_compute. reflexivity. Qed.
