(* Facts about the building blocks of the cmd.exe model (Cmd/CmdModel.v):
     (a) set /A: one binary operation on 32 bit integers is the mathematical one when that fits
     (b) IF: the comparison of the decimal texts of two integers is the integer comparison;
         texts in double quotes are compared as strings
     (c) the forward-then-wrap label search finds a label that occurs once, wherever it starts
     (d) percent expansion leaves a line without percent sign alone (the statement table of load_script)
   and a run of a small script under vm_compute. *)
From Verif Require Import Base.Bytestr Base.DecFacts Front.Ast Front.FrontModel Sem.Src Cmd.CmdModel.
From Coq Require Import ZArith Lia ZifyBool ZifyNat ZifyN.
Open Scope N_scope.

(* ------------------------------------------------------------------ (a) set /A *)
Definition in32 (z : Z) : Prop := (-2147483648 <= z <= 2147483647)%Z.

Lemma to_i32_id z : in32 z -> to_i32 z = z.
Proof.
  unfold in32, to_i32. intro H.
  rewrite Z.mod_small by lia. lia.
Qed.
Print Assumptions to_i32_id.

Lemma to_i32_range z : in32 (to_i32 z).
Proof.
  unfold in32, to_i32.
  pose proof (Z.mod_pos_bound (z + 2147483648) 4294967296 ltac:(lia)) as H. lia.
Qed.
Print Assumptions to_i32_range.

(* the mathematical result: division truncates toward zero, the remainder has the sign of the dividend *)
Definition math_op (o : N) (a b : Z) : Z :=
  if o =? 43 then (a + b)%Z
  else if o =? 45 then (a - b)%Z
  else if o =? 42 then (a * b)%Z
  else if o =? 47 then Z.quot a b
  else Z.rem a b.

Definition is_binary_op (o : N) : Prop := o = 43 \/ o = 45 \/ o = 42 \/ o = 47 \/ o = 37.

Theorem arith_op_exact o a b :
  is_binary_op o -> in32 a -> in32 b ->
  ((o = 47 \/ o = 37) -> b <> 0%Z) ->
  in32 (math_op o a b) ->
  arith_op o a b = Some (math_op o a b).
Proof.
  intros Ho Ha Hb Hnz Hr.
  assert (Z.rem a b = a - Z.quot a b * b)%Z as Hrem.
  { pose proof (Z.quot_rem' a b) as Q. lia. }
  destruct Ho as [Ho|[Ho|[Ho|[Ho|Ho]]]]; subst o; unfold arith_op, math_op in *; cbn [N.eqb Pos.eqb] in *.
  - rewrite to_i32_id by exact Hr. reflexivity.
  - rewrite to_i32_id by exact Hr. reflexivity.
  - rewrite to_i32_id by exact Hr. reflexivity.
  - assert (b <> 0%Z) as Hb0 by (apply Hnz; left; reflexivity).
    destruct (b =? 0)%Z eqn:E; [lia|].
    rewrite to_i32_id by exact Hr. reflexivity.
  - assert (b <> 0%Z) as Hb0 by (apply Hnz; right; reflexivity).
    destruct (b =? 0)%Z eqn:E; [lia|].
    rewrite <- Hrem. rewrite to_i32_id by exact Hr. reflexivity.
Qed.
Print Assumptions arith_op_exact.

(* division by zero is reported, not computed *)
Theorem arith_op_div_zero o a : o = 47 \/ o = 37 -> arith_op o a 0 = None.
Proof. intros [Ho|Ho]; subst o; reflexivity. Qed.
Print Assumptions arith_op_div_zero.

(* whatever the operands, the result is a 32 bit integer *)
Theorem arith_op_range o a b r : arith_op o a b = Some r -> in32 r.
Proof.
  unfold arith_op. intro H.
  repeat match type of H with
         | (if ?c then _ else _) = _ => destruct c
         end; try discriminate; inversion H; subst; apply to_i32_range.
Qed.
Print Assumptions arith_op_range.

(* the same against the reference semantics of TypeShell programs (Sem/Src.v, 64 bit integers) *)
Definition op_char (op : binop) : N :=
  match op with OpAdd => 43 | OpSub => 45 | OpMul => 42 | OpDiv => 47 | OpMod => 37 end.

Lemma wrap64_small z : (-9223372036854775808 <= z <= 9223372036854775807)%Z -> wrap64 z = z.
Proof. intro H. unfold wrap64. rewrite Z.mod_small by lia. lia. Qed.

Theorem arith_op_src op a b r :
  in32 a -> in32 b -> Src.arith op a b = Some r -> in32 r ->
  arith_op (op_char op) a b = Some r.
Proof.
  intros Ha Hb Hs Hr. unfold in32 in *.
  assert (forall z, Z.abs z <= 4611686018427387904 -> wrap64 z = z)%Z as W
    by (intros z Hz; apply wrap64_small; lia).
  destruct op; cbn [Src.arith op_char] in *.
  - (* OpMul *) rewrite W in Hs by nia. inversion Hs; subst r.
    apply (arith_op_exact 42 a b); unfold is_binary_op, in32, math_op; cbn [N.eqb Pos.eqb]; try lia.
  - (* OpDiv *) destruct (b =? 0)%Z eqn:E; [discriminate|].
    assert (Z.abs (Z.quot a b) <= Z.abs a)%Z as Hq.
    { assert (b <> 0)%Z as Hb0 by lia. clear - Hb0. Z.quot_rem_to_equations. nia. }
    rewrite W in Hs by lia. inversion Hs; subst r.
    apply (arith_op_exact 47 a b); unfold is_binary_op, in32, math_op; cbn [N.eqb Pos.eqb]; try lia.
  - (* OpMod *) destruct (b =? 0)%Z eqn:E; [discriminate|]. inversion Hs; subst r.
    apply (arith_op_exact 37 a b); unfold is_binary_op, in32, math_op; cbn [N.eqb Pos.eqb]; try lia.
  - (* OpAdd *) rewrite W in Hs by lia. inversion Hs; subst r.
    apply (arith_op_exact 43 a b); unfold is_binary_op, in32, math_op; cbn [N.eqb Pos.eqb]; try lia.
  - (* OpSub *) rewrite W in Hs by lia. inversion Hs; subst r.
    apply (arith_op_exact 45 a b); unfold is_binary_op, in32, math_op; cbn [N.eqb Pos.eqb]; try lia.
Qed.
Print Assumptions arith_op_src.

(* ------------------------------------------------------------------ (b) IF *)
Ltac Zify.zify_post_hook ::= Z.div_mod_to_equations.

Lemma digits_val_fold s : forall acc v,
  digits_val s acc = Some v -> fold_left (fun a c => a * 10 + (c - 48)) s acc = v.
Proof.
  induction s as [|c r IH]; intros acc v H; cbn [digits_val fold_left] in *.
  - congruence.
  - destruct (is_digit c); [|discriminate]. apply IH. exact H.
Qed.

Lemma digits_n_dec_N n : digits_n (dec_N n) = n.
Proof. unfold digits_n. apply digits_val_fold. apply digits_dec_N. Qed.

Lemma dec_fuel_head fuel : forall n acc,
  0 < n -> n < 2 ^ N.of_nat fuel -> hd_is 48 (dec_fuel fuel n acc) = false.
Proof.
  induction fuel as [|f IH]; intros n acc Hpos Hn.
  - cbn in Hn. lia.
  - cbn [dec_fuel]. destruct (n <? 10) eqn:E.
    + cbn [hd_is]. lia.
    + apply IH.
      * assert (10 <= n) as H10 by lia. clear - H10. lia.
      * rewrite Nat2N.inj_succ, N.pow_succ_r' in Hn.
        assert (n / 10 <= n / 2) as H1 by (apply N.div_le_compat_l; lia).
        assert (n / 2 < 2 ^ N.of_nat f) as H2 by (apply N.div_lt_upper_bound; lia).
        clear - H1 H2. lia.
Qed.

(* the decimal text of a positive number has no leading zero *)
Lemma dec_N_no_leading_zero p : hd_is 48 (dec_N (Npos p)) = false.
Proof.
  unfold dec_N. apply dec_fuel_head; [lia|].
  rewrite Nat2N.inj_succ, N2Nat.id. apply N.log2_spec. lia.
Qed.

Lemma strip_one_lf_id s : (forall c, In c s -> c <> 10) -> strip_one_lf s = s.
Proof.
  intro H. unfold strip_one_lf. destruct (rev s) as [|c r] eqn:E; [reflexivity|].
  destruct (c =? 10) eqn:Ec; [|reflexivity].
  exfalso. apply (H c); [|lia]. apply in_rev. rewrite E. left. reflexivity.
Qed.

Lemma digits_not_lf s : forallb is_digit s = true -> forall c, In c s -> c <> 10.
Proof.
  intros H c Hin. rewrite forallb_forall in H. specialize (H c Hin). unfold is_digit in H. lia.
Qed.

(* IF reads the decimal text of an integer as that integer *)
Theorem as_int_dec_Z z : as_int (dec_Z z) = Some z.
Proof.
  destruct z as [|p|p]; cbn [dec_Z].
  - reflexivity.
  - pose proof (dec_N_digits (Npos p)) as Hd. pose proof (dec_N_nonempty (Npos p)) as Hne.
    pose proof (dec_N_no_leading_zero p) as Hz. pose proof (digits_n_dec_N (Npos p)) as Hv.
    unfold as_int. rewrite strip_one_lf_id by (apply digits_not_lf; exact Hd).
    destruct (dec_N (Npos p)) as [|c r] eqn:E; [congruence|].
    assert (is_digit c = true) as Hc by (cbn [forallb] in Hd; apply andb_true_iff in Hd; tauto).
    assert (hd_is 45 (c :: r) = false) as H45 by (cbn [hd_is]; unfold is_digit in Hc; lia).
    assert (hd_is 43 (c :: r) = false) as H43 by (cbn [hd_is]; unfold is_digit in Hc; lia).
    rewrite H45, H43. cbn [orb is_empty]. rewrite Hd, Hz, andb_false_r. cbn [negb].
    rewrite Hv. reflexivity.
  - pose proof (dec_N_digits (Npos p)) as Hd. pose proof (dec_N_nonempty (Npos p)) as Hne.
    pose proof (dec_N_no_leading_zero p) as Hz. pose proof (digits_n_dec_N (Npos p)) as Hv.
    unfold as_int. rewrite strip_one_lf_id.
    2:{ intros c [Hc|Hc]; [lia|]. revert c Hc. apply digits_not_lf. exact Hd. }
    change (hd_is 45 (45 :: dec_N (N.pos p))) with true. cbn [orb tl].
    destruct (dec_N (Npos p)) as [|c r] eqn:E; [congruence|].
    cbn [is_empty orb]. rewrite Hd, Hz, andb_false_r. cbn [negb].
    rewrite Hv. reflexivity.
Qed.
Print Assumptions as_int_dec_Z.

(* the same through the parser of integer literals of the front end (Base/DecFacts.v) *)
Corollary as_int_atoi z :
  (-9223372036854775808 <= z <= 9223372036854775807)%Z -> as_int (dec_Z z) = atoi (dec_Z z).
Proof. intro H. rewrite as_int_dec_Z, atoi_dec_Z by exact H. reflexivity. Qed.
Print Assumptions as_int_atoi.

Definition cmp_table : list (bytes * (Z -> Z -> bool)) :=
  [ (kw_equ, Z.eqb); (kw_neq, fun a b => negb (Z.eqb a b)); (kw_lss, Z.ltb);
    (kw_leq, Z.leb); (kw_gtr, Z.gtb); (kw_geq, Z.geb) ].

Theorem if_compares_integers op f a b :
  In (op, f) cmp_table -> in32 a -> in32 b ->
  compare_texts op (dec_Z a) (dec_Z b) = Some (f a b).
Proof.
  intros Hin _ _. unfold compare_texts. rewrite !as_int_dec_Z.
  cbn [cmp_table In] in Hin.
  destruct (Z.compare_spec a b) as [Hc|Hc|Hc];
  repeat (destruct Hin as [Hin|Hin]; [inversion Hin; subst op f; vm_compute beq; cbv iota; unfold cmp_result; vm_compute beq; cbv iota; f_equal; lia|]);
  destruct Hin.
Qed.
Print Assumptions if_compares_integers.

(* in double quotes the operands are not numbers: the comparison is the one of the strings *)
Lemma strip_one_lf_hd c s : c <> 10 -> exists s', strip_one_lf (c :: s) = c :: s'.
Proof.
  intro Hc. unfold strip_one_lf. destruct (rev (c :: s)) as [|d r] eqn:E.
  - exists s. reflexivity.
  - destruct (d =? 10) eqn:Ed; [|exists s; reflexivity].
    assert (c :: s = rev r ++ [d]) as Hs.
    { rewrite <- (rev_involutive (c :: s)), E. reflexivity. }
    destruct (rev r) as [|x t].
    + cbn in Hs. inversion Hs. lia.
    + cbn in Hs. inversion Hs. subst x. exists t. reflexivity.
Qed.

Lemma as_int_quoted s : as_int (34 :: s) = None.
Proof.
  unfold as_int. destruct (strip_one_lf_hd 34 s ltac:(lia)) as (s' & Hs). rewrite Hs.
  change (hd_is 45 (34 :: s')) with false. change (hd_is 43 (34 :: s')) with false.
  cbn [orb is_empty forallb]. change (is_digit 34) with false. reflexivity.
Qed.

Theorem if_quoted_is_stringwise op l r :
  beq op kw_eqeq = false ->
  compare_texts op (34 :: l) (34 :: r) = cmp_result op (bcmp (34 :: l) (34 :: r)).
Proof. intro H. unfold compare_texts. rewrite H, as_int_quoted. reflexivity. Qed.
Print Assumptions if_quoted_is_stringwise.

Definition quoted (s : bytes) : bytes := 34 :: s ++ [34].

(* 10 LSS 9 holds for the quoted texts (the slice helpers of the Batch converter compare like this) *)
Theorem if_quoted_10_lss_9 :
  compare_texts kw_lss (quoted (dec_Z 10)) (quoted (dec_Z 9)) = Some true
  /\ compare_texts kw_lss (dec_Z 10) (dec_Z 9) = Some false.
Proof. split; vm_compute; reflexivity. Qed.
Print Assumptions if_quoted_10_lss_9.

(* the loop test of the slice helpers: index 2 is not below length 12 *)
Theorem if_quoted_2_lss_12 :
  compare_texts kw_lss (quoted (dec_Z 2)) (quoted (dec_Z 12)) = Some false.
Proof. vm_compute. reflexivity. Qed.
Print Assumptions if_quoted_2_lss_12.

(* ------------------------------------------------------------------ (c) the label search *)
Definition defines (want : bytes) (li : line_info) : Prop := li_label li = Some want.

Lemma find_idx_sound want ls : forall k r,
  find_idx want ls k = Some r ->
  exists j li, r = (k + j)%nat /\ nth_error ls j = Some li /\ defines want li.
Proof.
  induction ls as [|li ls IH]; intros k r H; cbn [find_idx] in H.
  - discriminate.
  - destruct (li_label li) as [name|] eqn:El.
    + destruct (beq name want) eqn:Eb.
      * apply beq_eq in Eb. subst name. inversion H; subst r.
        exists 0%nat, li. repeat split; [lia|exact El].
      * destruct (IH _ _ H) as (j & lj & Hr & Hn & Hd).
        exists (S j), lj. repeat split; [lia|exact Hn|exact Hd].
    + destruct (IH _ _ H) as (j & lj & Hr & Hn & Hd).
      exists (S j), lj. repeat split; [lia|exact Hn|exact Hd].
Qed.

Lemma find_idx_complete want ls : forall k j li,
  nth_error ls j = Some li -> defines want li -> find_idx want ls k <> None.
Proof.
  induction ls as [|l0 ls IH]; intros k j li Hn Hd.
  - destruct j; discriminate.
  - cbn [find_idx]. destruct j as [|j].
    + cbn in Hn. inversion Hn; subst l0. unfold defines in Hd. rewrite Hd, beq_refl. discriminate.
    + cbn in Hn. destruct (li_label l0) as [name|]; [destruct (beq name want); [discriminate|]|];
      eapply IH; eassumption.
Qed.

(* the label occurs on line i and on no other line *)
Definition occurs_once (infos : list line_info) (want : bytes) (i : nat) : Prop :=
  (exists li, nth_error infos i = Some li /\ defines want li) /\
  (forall j lj, nth_error infos j = Some lj -> defines want lj -> j = i).

Lemma nth_error_skipn {A} (l : list A) : forall n j, nth_error (skipn n l) j = nth_error l (n + j).
Proof.
  induction l as [|x l IH]; intros n j.
  - destruct n, j; reflexivity.
  - destruct n as [|n]; [reflexivity|]. cbn [skipn Nat.add nth_error]. apply IH.
Qed.

Lemma nth_error_firstn_some {A} (l : list A) : forall n j x,
  nth_error (firstn n l) j = Some x -> nth_error l j = Some x.
Proof.
  induction l as [|y l IH]; intros n j x H.
  - destruct n; destruct j; discriminate.
  - destruct n as [|n]; [destruct j; discriminate|].
    destruct j as [|j]; [exact H|]. cbn in *. eapply IH. exact H.
Qed.

Lemma nth_error_firstn_lt {A} (l : list A) : forall n j,
  (j < n)%nat -> nth_error (firstn n l) j = nth_error l j.
Proof.
  induction l as [|y l IH]; intros n j H.
  - destruct n; destruct j; reflexivity.
  - destruct n as [|n]; [lia|]. destruct j as [|j]; [reflexivity|]. cbn. apply IH. lia.
Qed.

Theorem find_label_in_once infos want i start :
  occurs_once infos want i -> find_label_in infos want start = Some i.
Proof.
  intros [(li & Hi & Hd) Huniq]. unfold find_label_in.
  destruct (find_idx want (skipn start infos) start) as [r|] eqn:E1.
  - destruct (find_idx_sound _ _ _ _ E1) as (j & lj & Hr & Hn & Hdj).
    rewrite nth_error_skipn in Hn. rewrite (Huniq _ _ Hn Hdj) in Hr. congruence.
  - destruct (Nat.le_gt_cases start i) as [Hle|Hgt].
    + exfalso. apply (find_idx_complete want (skipn start infos) start (i - start)%nat li); [|exact Hd|exact E1].
      rewrite nth_error_skipn. replace (start + (i - start))%nat with i by lia. exact Hi.
    + destruct (find_idx want (firstn start infos) 0) as [r|] eqn:E2.
      * destruct (find_idx_sound _ _ _ _ E2) as (j & lj & Hr & Hn & Hdj).
        apply nth_error_firstn_some in Hn. rewrite (Huniq _ _ Hn Hdj) in Hr. cbn in Hr. congruence.
      * exfalso. apply (find_idx_complete want (firstn start infos) 0 i li); [|exact Hd|exact E2].
        rewrite nth_error_firstn_lt by lia. exact Hi.
Qed.
Print Assumptions find_label_in_once.

(* the same for goto/call: the colon and the case of the label do not matter, :eof is not searched *)
Theorem find_label_once sc label i start :
  let want := lower (drop_while (fun c => c =? 58) label) in
  beq want kw_eof = false ->
  occurs_once (sc_info sc) want i ->
  find_label sc label start = Some i.
Proof.
  intros want Heof Hocc. unfold find_label. fold want. rewrite Heof.
  apply find_label_in_once. exact Hocc.
Qed.
Print Assumptions find_label_once.

(* ------------------------------------------------------------------ (d) the statement table *)
(* a line without percent sign is its own percent expansion: the statements tabulated by load_script
   are the ones read_statement would parse *)
Lemma percent_go_no_percent env args : forall fuel line,
  has_byte 37 line = false -> (length line < fuel)%nat -> percent_go fuel env args line = line.
Proof.
  induction fuel as [|f IH]; intros line Hp Hl; [lia|].
  destruct line as [|c r]; [reflexivity|].
  cbn [percent_go]. cbn [has_byte] in Hp. destruct (c =? 37) eqn:E; [discriminate|].
  cbn [negb]. f_equal. apply IH; [exact Hp|cbn [length] in Hl; lia].
Qed.

Theorem percent_no_percent env args line : has_byte 37 line = false -> percent env args line = line.
Proof. intro H. unfold percent. apply percent_go_no_percent; [exact H|lia]. Qed.
Print Assumptions percent_no_percent.

Theorem no_percent_expand env args line t :
  no_percent line = Some t -> Some (percent env args line) = Some t.
Proof.
  unfold no_percent. destruct (has_byte 37 line) eqn:E; [discriminate|].
  intro H. inversion H; subst t. rewrite percent_no_percent by exact E. reflexivity.
Qed.
Print Assumptions no_percent_expand.

(* ------------------------------------------------------------------ a run *)
Definition crlf : bytes := [13; 10].
Definition demo_script : bytes :=
  bs "@echo off" ++ crlf ++
  bs "setlocal EnableDelayedExpansion" ++ crlf ++
  bs "set /A ""x=6*7""" ++ crlf ++
  bs "goto :skip" ++ crlf ++
  bs "echo not here" ++ crlf ++
  bs ":f" ++ crlf ++
  bs "echo f %1 !x:~1,1!" ++ crlf ++
  bs "exit /B" ++ crlf ++
  bs ":skip" ++ crlf ++
  bs "call :f a" ++ crlf ++
  bs "if ""!x!"" lss ""5"" (echo !x! lss 5) else echo no" ++ crlf ++
  bs "exit /B 3" ++ crlf.

Example demo_run :
  cmd_run 100 demo_script = CmdRan (bs "f a 2" ++ [10] ++ bs "42 lss 5" ++ [10]) 3.
Proof. vm_compute. reflexivity. Qed.

Example demo_fuel : cmd_run 5 demo_script = CmdFuel.
Proof. vm_compute. reflexivity. Qed.
