(* An executable model of cmd.exe for the subset of Batch that the TypeShell Batch converter emits.
   A Gallina port of /verif/seeded/C05-m1/cmdmodel.py; the function names follow that file.

   Modelled rules:
     - a statement is read line by line; a parenthesised block is read as a whole; percent expansion
       (a doubled percent sign, percent-digit, percent-tilde-digit, percent-name-percent) happens when
       the statement is read
     - bang-name-bang expansion (with the :~a,b substring form) happens when each single command runs
     - goto / call :label search the label from the line after the statement that is being executed to
       the end of the file and then wrap around
     - goto abandons the whole block that is being executed
     - call :label runs a frame with its own percent-1..9, exit /B leaves it
     - IF compares numerically when both sides are integers, otherwise as strings
     - set /A is signed 32 bit arithmetic, division truncates towards zero

   The script is split into lines ONCE (load_script); for every line the label it defines and, when no
   line of the statement starting there contains a percent sign, the parsed statement are tabulated, so
   that the run does not parse text again except for statements that need percent expansion.

   Fuel: cmd_run fuel corresponds to cmdmodel.py with MAX_STEPS = fuel (the counter st_steps counts
   the calls of execute exactly like Cmd.tick); the structural recursion argument 2*fuel+4 is never
   exhausted before the counter trips (every level of recursion below run_frame/execute is paid by a
   tick, a frame by the call that created it). *)
From Verif Require Import Base.Bytestr.
From Coq Require Import ZArith.
Open Scope N_scope.

(* ------------------------------------------------------------------ characters and strings *)
(* Python str.isspace on ASCII: 9..13, 28..32 *)
Definition is_space (c : N) : bool := ((9 <=? c) && (c <=? 13)) || ((28 <=? c) && (c <=? 32)).
Definition is_blank (c : N) : bool := (c =? 32) || (c =? 9).
Definition lower_c (c : N) : N := if is_upper c then c + 32 else c.
Definition upper_c (c : N) : N := if is_lower c then c - 32 else c.
Definition lower (s : bytes) : bytes := map lower_c s.
Definition upper (s : bytes) : bytes := map upper_c s.

Fixpoint drop_while (p : N -> bool) (s : bytes) : bytes :=
  match s with
  | [] => []
  | c :: r => if p c then drop_while p r else s
  end.

Definition lstrip (s : bytes) : bytes := drop_while is_space s.
Definition rstrip (s : bytes) : bytes := rev (drop_while is_space (rev s)).
Definition strip (s : bytes) : bytes := rstrip (lstrip s).

Definition is_empty (s : bytes) : bool := match s with [] => true | _ => false end.

(* s.find(c): the text before the first c and the text after it *)
Fixpoint find_byte (c : N) (s : bytes) : option (bytes * bytes) :=
  match s with
  | [] => None
  | d :: r =>
      if d =? c then Some ([], r)
      else match find_byte c r with
           | Some (a, b) => Some (d :: a, b)
           | None => None
           end
  end.

Fixpoint has_byte (c : N) (s : bytes) : bool :=
  match s with
  | [] => false
  | d :: r => if d =? c then true else has_byte c r
  end.

(* s.split(c) *)
Fixpoint split_on (c : N) (s : bytes) : list bytes :=
  match s with
  | [] => [[]]
  | d :: r =>
      match split_on c r with
      | h :: t => if d =? c then [] :: h :: t else (d :: h) :: t
      | [] => [[]]
      end
  end.

(* s.split() *)
Fixpoint words_aux (s : bytes) (cur : bytes) : list bytes :=
  match s with
  | [] => if is_empty cur then [] else [rev cur]
  | c :: r =>
      if is_space c
      then (if is_empty cur then words_aux r [] else rev cur :: words_aux r [])
      else words_aux r (c :: cur)
  end.
Definition words (s : bytes) : list bytes := words_aux s [].

(* s.replace(k, v), left to right, not overlapping; an empty k leaves s alone *)
Fixpoint replace_go (fuel : nat) (k v s : bytes) : bytes :=
  match fuel with
  | O => s
  | S f =>
      match s with
      | [] => []
      | c :: r =>
          match strip_prefix k s with
          | Some rest => v ++ replace_go f k v rest
          | None => c :: replace_go f k v r
          end
      end
  end.
Definition replace_all (k v s : bytes) : bytes :=
  if is_empty k then s else replace_go (S (length s)) k v s.

(* text.replace(CR LF, LF) *)
Fixpoint crlf_to_lf (s : bytes) : bytes :=
  match s with
  | [] => []
  | c :: r => if (c =? 13) && hd_is 10 r then crlf_to_lf r else c :: crlf_to_lf r
  end.

(* lexicographic comparison of strings (Python compares code points, here bytes) *)
Fixpoint bcmp (a b : bytes) : comparison :=
  match a, b with
  | [], [] => Eq
  | [], _ :: _ => Lt
  | _ :: _, [] => Gt
  | x :: a', y :: b' => match x ?= y with Eq => bcmp a' b' | o => o end
  end.

(* value of a run of decimal digits *)
Definition digits_n (ds : bytes) : N := fold_left (fun a c => a * 10 + (c - 48)) ds 0.
Definition is_octal (c : N) : bool := (48 <=? c) && (c <=? 55).
Definition octal_n (ds : bytes) : N := fold_left (fun a c => a * 8 + (c - 48)) ds 0.
Definition is_hex (c : N) : bool :=
  is_digit c || ((65 <=? c) && (c <=? 70)) || ((97 <=? c) && (c <=? 102)).
Definition hex_digit (c : N) : N :=
  if is_digit c then c - 48 else if c <=? 70 then c - 55 else c - 87.
Definition hex_n (ds : bytes) : N := fold_left (fun a c => a * 16 + hex_digit c) ds 0.

(* -?\d+ at the start of s *)
Definition signed_int (s : bytes) : option (Z * bytes) :=
  let neg := hd_is 45 s in
  let '(ds, rest) := span is_digit (if neg then tl s else s) in
  if is_empty ds then None
  else Some ((if neg then - Z.of_N (digits_n ds) else Z.of_N (digits_n ds))%Z, rest).

(* int(s) for the texts the model meets: optional sign, digits *)
Definition py_int (s : bytes) : option Z :=
  let t := strip s in
  let neg := hd_is 45 t in
  let ds := if neg || hd_is 43 t then tl t else t in
  if is_empty ds || negb (forallb is_digit ds) then None
  else Some (if neg then - Z.of_N (digits_n ds) else Z.of_N (digits_n ds))%Z.

Definition to_i32 (v : Z) : Z := ((v + 2147483648) mod 4294967296 - 2147483648)%Z.

(* keywords, evaluated once *)
Definition kw_if := Eval compute in bs "if".
Definition kw_not := Eval compute in bs "not".
Definition kw_defined := Eval compute in bs "defined".
Definition kw_exist := Eval compute in bs "exist".
Definition kw_else := Eval compute in bs "else".
Definition kw_for := Eval compute in bs "for".
Definition kw_slash_f := Eval compute in bs "/f".
Definition kw_in := Eval compute in bs "in".
Definition kw_do := Eval compute in bs "do".
Definition kw_eqeq := Eval compute in bs "==".
Definition kw_equ := Eval compute in bs "equ".
Definition kw_neq := Eval compute in bs "neq".
Definition kw_lss := Eval compute in bs "lss".
Definition kw_leq := Eval compute in bs "leq".
Definition kw_gtr := Eval compute in bs "gtr".
Definition kw_geq := Eval compute in bs "geq".
Definition kw_rem := Eval compute in bs "rem".
Definition kw_setlocal := Eval compute in bs "setlocal".
Definition kw_endlocal := Eval compute in bs "endlocal".
Definition kw_echo_dot := Eval compute in bs "echo.".
Definition kw_echo_sp := Eval compute in bs "echo ".
Definition kw_echo := Eval compute in bs "echo".
Definition kw_off := Eval compute in bs "off".
Definition kw_on := Eval compute in bs "on".
Definition kw_echo_is_off := Eval compute in bs "ECHO is off.".
Definition kw_goto := Eval compute in bs "goto".
Definition kw_exit := Eval compute in bs "exit".
Definition kw_slash_b := Eval compute in bs "/b".
Definition kw_call_sp := Eval compute in bs "call ".
Definition kw_set_sp := Eval compute in bs "set ".
Definition kw_slash_a := Eval compute in bs "/a".
Definition kw_slash_p := Eval compute in bs "/p".
Definition kw_eof := Eval compute in bs "eof".
Definition kw_lf_idiom := Eval compute in bs "(set LF=^".
Definition kw_LF := Eval compute in bs "LF".
Definition kw_div_zero := Eval compute in bs "Divide by zero error.".

(* ------------------------------------------------------------------ the parsed statement *)
Inductive cond :=
| CondDefined (tok : bytes)
| CondExist (tok : bytes)
| CondCmp (lhs op rhs : bytes).

Inductive command :=
| CLabel
| CBlock (body : list command)
| CIf (negate : bool) (c : cond) (thn : command) (els : option command)
| CFor (var source : bytes) (body : command)
| CSimple (raw : bytes).

(* ------------------------------------------------------------------ class P: the statement parser
   The parser state of cmdmodel.py (text and index) is the text that is still to be read. *)
Inductive pres (A : Type) :=
| POk (a : A) (rest : bytes)
| PNeedMore
| PUnsupported.
Arguments POk {A}. Arguments PNeedMore {A}. Arguments PUnsupported {A}.

Definition skip_spaces (s : bytes) : bytes := drop_while is_blank s.
Definition skip_ws_nl (s : bytes) : bytes := drop_while (fun c => is_blank c || (c =? 10)) s.
Definition skip_to_nl (s : bytes) : bytes := drop_while (fun c => negb (c =? 10)) s.

(* [^\s()]+ *)
Definition is_word_char (c : N) : bool := negb (is_space c || (c =? 40) || (c =? 41)).
Definition peek_word (s : bytes) : bytes := fst (span is_word_char s).
Definition take_word (s : bytes) : bytes * bytes := span is_word_char (skip_spaces s).

(* an IF operand: a quoted string or a run of non blanks *)
Definition take_token (s : bytes) : bytes * bytes :=
  let s1 := skip_spaces s in
  let '(q, s2) :=
    if hd_is 34 s1 then
      let '(inner, r) := span (fun c => negb ((c =? 34) || (c =? 10))) (tl s1) in
      if hd_is 34 r then (34 :: inner ++ [34], tl r) else (34 :: inner, r)
    else ([], s1) in
  let '(w, s3) := span (fun c => negb (is_blank c || (c =? 10))) s2 in
  (q ++ w, s3).

(* the source of for /f: up to the first closing parenthesis outside double quotes *)
Fixpoint scan_for_source (s : bytes) (quote : bool) : option (bytes * bytes) :=
  match s with
  | [] => None
  | c :: r =>
      if c =? 34 then
        match scan_for_source r (negb quote) with Some (a, b) => Some (c :: a, b) | None => None end
      else if (c =? 41) && negb quote then Some ([], r)
      else match scan_for_source r quote with Some (a, b) => Some (c :: a, b) | None => None end
  end.

(* a simple command: up to the end of the line, an unquoted ampersand or (in a block) an unquoted ) *)
Fixpoint scan_simple (s : bytes) (quote in_paren : bool) : bytes * bytes :=
  match s with
  | [] => ([], [])
  | c :: r =>
      if c =? 10 then ([], s)
      else if c =? 94 then
        match r with
        | d :: r' => let '(a, b) := scan_simple r' quote in_paren in (c :: d :: a, b)
        | [] => ([c], [])
        end
      else if c =? 34 then let '(a, b) := scan_simple r (negb quote) in_paren in (c :: a, b)
      else if negb quote && (c =? 38) then ([], s)
      else if negb quote && (c =? 41) && in_paren then ([], s)
      else let '(a, b) := scan_simple r quote in_paren in (c :: a, b)
  end.

Definition parse_cond (s : bytes) : cond * bytes :=
  let w := lower (peek_word s) in
  if beq w kw_defined then
    let '(t, r) := take_token (snd (take_word s)) in (CondDefined t, r)
  else if beq w kw_exist then
    let '(t, r) := take_token (snd (take_word s)) in (CondExist t, r)
  else
    let '(lhs, r1) := take_token s in
    let '(op, r2) := take_word r1 in
    let '(rhs, r3) := take_token r2 in
    (CondCmp lhs (lower op) rhs, r3).

Fixpoint parse_block (fuel : nat) (s : bytes) (in_paren : bool) : pres (list command) :=
  match fuel with
  | O => PUnsupported
  | S f =>
      let s1 := skip_ws_nl s in
      match s1 with
      | [] => if in_paren then PNeedMore else POk [] []
      | c :: r =>
          if c =? 41 then
            (if in_paren then POk [] r
             else parse_block f (skip_to_nl s1) in_paren)   (* a stray ) works like REM *)
          else if c =? 38 then parse_block f r in_paren
          else
            match parse_command f s1 in_paren with
            | POk cmd rest =>
                match parse_block f rest in_paren with
                | POk cmds rest' => POk (cmd :: cmds) rest'
                | PNeedMore => PNeedMore
                | PUnsupported => PUnsupported
                end
            | PNeedMore => PNeedMore
            | PUnsupported => PUnsupported
            end
      end
  end

with parse_body (fuel : nat) (s : bytes) (in_paren : bool) : pres command :=
  match fuel with
  | O => PUnsupported
  | S f =>
      let s1 := skip_spaces s in
      if hd_is 40 s1 then
        match parse_block f (tl s1) true with
        | POk cmds rest => POk (CBlock cmds) rest
        | PNeedMore => PNeedMore
        | PUnsupported => PUnsupported
        end
      else parse_command f s1 in_paren
  end

with parse_command (fuel : nat) (s : bytes) (in_paren : bool) : pres command :=
  match fuel with
  | O => PUnsupported
  | S f =>
      let s1 := skip_spaces s in
      let s2 := if hd_is 64 s1 then tl s1 else s1 in
      if hd_is 40 s2 then
        match parse_block f (tl s2) true with
        | POk cmds rest => POk (CBlock cmds) rest
        | PNeedMore => PNeedMore
        | PUnsupported => PUnsupported
        end
      else if hd_is 58 s2 then POk CLabel (skip_to_nl s2)
      else
        let word := lower (peek_word s2) in
        if beq word kw_if then
          let s3 := skip_spaces (snd (take_word s2)) in
          let '(negate, s4) :=
            if beq (lower (peek_word s3)) kw_not then (true, snd (take_word s3)) else (false, s3) in
          let '(cnd, s5) := parse_cond s4 in
          match parse_body f s5 in_paren with
          | POk thn s6 =>
              let s7 := skip_spaces s6 in
              if beq (lower (peek_word s7)) kw_else then
                match parse_body f (snd (take_word s7)) in_paren with
                | POk els s8 => POk (CIf negate cnd thn (Some els)) s8
                | PNeedMore => PNeedMore
                | PUnsupported => PUnsupported
                end
              else POk (CIf negate cnd thn None) s6
          | PNeedMore => PNeedMore
          | PUnsupported => PUnsupported
          end
        else if beq word kw_for then
          let s3 := snd (take_word s2) in
          let '(w_f, s4) := take_word s3 in
          if negb (beq (lower w_f) kw_slash_f) then PUnsupported
          else
            let s5 := snd (take_token s4) in          (* the delims option *)
            let '(var, s6) := take_word s5 in
            let '(w_in, s7) := take_word s6 in
            if negb (beq (lower w_in) kw_in) then PUnsupported
            else
              let s8 := skip_spaces s7 in
              if negb (hd_is 40 s8) then PUnsupported
              else
                match scan_for_source (tl s8) false with
                | None => PNeedMore
                | Some (source, s9) =>
                    let '(w_do, s10) := take_word s9 in
                    if negb (beq (lower w_do) kw_do) then PUnsupported
                    else
                      match parse_body f s10 in_paren with
                      | POk body s11 => POk (CFor var source body) s11
                      | PNeedMore => PNeedMore
                      | PUnsupported => PUnsupported
                      end
                end
        else
          let '(text, rest) := scan_simple s2 false in_paren in
          POk (CSimple (strip text)) rest
  end.

Definition parse_fuel (s : bytes) : nat := (2 * length s + 8)%nat.

Definition parse_statement (text : bytes) : pres (list command) :=
  parse_block (parse_fuel text) text false.

(* ------------------------------------------------------------------ the environment *)
Definition envt := list (bytes * bytes).

Fixpoint env_get (k : bytes) (e : envt) : option bytes :=
  match e with
  | [] => None
  | (k', v) :: r => if beq k k' then Some v else env_get k r
  end.

Fixpoint env_set (k v : bytes) (e : envt) : envt :=
  match e with
  | [] => [(k, v)]
  | (k', v') :: r => if beq k k' then (k, v) :: r else (k', v') :: env_set k v r
  end.

Fixpoint env_pop (k : bytes) (e : envt) : envt :=
  match e with
  | [] => []
  | (k', v') :: r => if beq k k' then r else (k', v') :: env_pop k r
  end.

Definition env_has (k : bytes) (e : envt) : bool :=
  match env_get k e with Some _ => true | None => false end.

(* ------------------------------------------------------------------ expansion *)
(* the tail of name:~a,b after the tilde *)
Definition at_end (s : bytes) : bool :=
  match s with
  | [] => true
  | c :: r => (c =? 10) && is_empty r
  end.

Definition parse_sub_tail (t : bytes) : option (Z * option Z) :=
  match signed_int t with
  | None => None
  | Some (a, t1) =>
      if at_end t1 then Some (a, None)
      else if hd_is 44 t1 then
        match signed_int (tl t1) with
        | Some (b, t2) => if at_end t2 then Some (a, Some b) else None
        | None => None
        end
      else None
  end.

(* ^(.*?):~(-?\d+)(?:,(-?\d+))?$ *)
Fixpoint match_sub (spec : bytes) : option (bytes * Z * option Z) :=
  match spec with
  | [] => None
  | c :: r =>
      let here := if (c =? 58) && hd_is 126 r then parse_sub_tail (tl r) else None in
      match here with
      | Some (a, b) => Some ([], a, b)
      | None =>
          match match_sub r with
          | Some (nm, a, b) => Some (c :: nm, a, b)
          | None => None
          end
      end
  end.

Definition slice (v : bytes) (from to : Z) : bytes :=
  firstn (Z.to_nat (to - from)) (skipn (Z.to_nat from) v).

Definition lookup (env : envt) (spec : bytes) : bytes :=
  match match_sub spec with
  | None => match env_get (upper spec) env with Some v => v | None => [] end
  | Some (nm, start, ln) =>
      match env_get (upper nm) env with
      | None => []
      | Some v =>
          let n := Z.of_nat (length v) in
          let start1 := (if start <? 0 then Z.max 0 (n + start) else start)%Z in
          let start2 := Z.min start1 n in
          match ln with
          | None => slice v start2 n
          | Some l =>
              if (l <? 0)%Z then slice v start2 (Z.max start2 (n + l))
              else slice v start2 (Z.min n (start2 + l))
          end
      end
  end.

Definition unquote (v : bytes) : bytes :=
  match v with
  | c :: r =>
      if c =? 34 then
        match rev r with
        | d :: m => if d =? 34 then rev m else v
        | [] => v
        end
      else v
  | [] => v
  end.

Definition nth_arg (args : list bytes) (d : N) : bytes := nth (N.to_nat (d - 48)) args [].

Fixpoint percent_go (fuel : nat) (env : envt) (args : list bytes) (line : bytes) : bytes :=
  match fuel with
  | O => []
  | S f =>
      match line with
      | [] => []
      | c :: r =>
          if negb (c =? 37) then c :: percent_go f env args r
          else
            match r with
            | [] => []                                  (* a lone percent sign disappears *)
            | nxt :: r2 =>
                if nxt =? 37 then 37 :: percent_go f env args r2
                else if (nxt =? 126) && (match r2 with d :: _ => is_digit d | [] => false end) then
                  match r2 with
                  | d :: r3 => unquote (nth_arg args d) ++ percent_go f env args r3
                  | [] => []
                  end
                else if is_digit nxt then nth_arg args nxt ++ percent_go f env args r2
                else if nxt =? 42 then join [32] (tl args) ++ percent_go f env args r2
                else
                  match find_byte 37 r with
                  | None => percent_go f env args r
                  | Some (name, rest) => lookup env name ++ percent_go f env args rest
                  end
            end
      end
  end.
Definition percent (env : envt) (args : list bytes) (line : bytes) : bytes :=
  percent_go (S (length line)) env args line.

Fixpoint delayed_go (fuel : nat) (env : envt) (s : bytes) : bytes :=
  match fuel with
  | O => []
  | S f =>
      match s with
      | [] => []
      | c :: r =>
          if c =? 94 then
            match r with
            | d :: r' => d :: delayed_go f env r'
            | [] => [c]
            end
          else if c =? 33 then
            match find_byte 33 r with
            | None => delayed_go f env r
            | Some (name, rest) => lookup env name ++ delayed_go f env rest
            end
          else c :: delayed_go f env r
      end
  end.
Definition delayed (env : envt) (s : bytes) : bytes := delayed_go (S (length s)) env s.

(* the for variables, in the order in which they were bound *)
Definition forvarst := list (bytes * bytes).
Fixpoint forsub (s : bytes) (forvars : forvarst) : bytes :=
  match forvars with
  | [] => s
  | (k, v) :: r => forsub (replace_all k v s) r
  end.

(* ------------------------------------------------------------------ the script, read once *)
Record line_info := mkLine {
  li_label : option bytes;                      (* the label the line defines, in lower case *)
  li_lf : bool;                                 (* the line of the LF idiom *)
  li_static : option (list command * nat)       (* the statement that starts here when it needs no percent expansion *)
}.

Record script := mkScript {
  sc_raw : list bytes;
  sc_info : list line_info;
  sc_n : nat
}.

(* [\s+:&<>|] ends the name of a label *)
Definition is_label_end (c : N) : bool :=
  is_space c || (c =? 43) || (c =? 58) || (c =? 38) || (c =? 60) || (c =? 62) || (c =? 124).

Definition line_label (line : bytes) : option bytes :=
  let l := drop_while is_blank line in
  if hd_is 58 l && negb (hd_is 58 (tl l))
  then Some (lower (fst (span (fun c => negb (is_label_end c)) (tl l))))
  else None.

(* the loop of read_statement: parse, and append the next line while the block is open *)
Fixpoint read_more (expand : bytes -> option bytes) (rest : list bytes) (text : bytes) (pos : nat)
  : option (list command * nat) :=
  match parse_statement text with
  | POk cmds _ => Some (cmds, pos)
  | PUnsupported => None
  | PNeedMore =>
      match rest with
      | [] => None                               (* unbalanced block at end of file *)
      | l :: rest' =>
          match expand l with
          | Some t => read_more expand rest' (text ++ 10 :: t) (S pos)
          | None => None
          end
      end
  end.

Definition read_with (expand : bytes -> option bytes) (lines : list bytes) (pos : nat)
  : option (list command * nat) :=
  match skipn pos lines with
  | [] => None
  | l :: rest =>
      match expand l with
      | Some t => read_more expand rest t (S pos)
      | None => None
      end
  end.

Definition no_percent (l : bytes) : option bytes := if has_byte 37 l then None else Some l.

Fixpoint line_infos (lines : list bytes) (all : list bytes) (pos : nat) : list line_info :=
  match lines with
  | [] => []
  | l :: r =>
      let lf := beq (strip l) kw_lf_idiom in
      mkLine (line_label l) lf (if lf then None else read_with no_percent all pos)
      :: line_infos r all (S pos)
  end.

Definition load_script (text : bytes) : script :=
  let lines := split_on 10 (crlf_to_lf text) in
  mkScript lines (line_infos lines lines 0) (length lines).

(* ------------------------------------------------------------------ the state *)
Record state := mkSt {
  st_env : envt;
  st_out : list bytes;          (* the echoed lines, the latest first *)
  st_steps : N;
  st_errorlevel : Z;
  st_pos : nat                  (* the line after the statement that is being executed *)
}.

Definition set_env (st : state) (e : envt) : state :=
  mkSt e (st_out st) (st_steps st) (st_errorlevel st) (st_pos st).
Definition add_out (st : state) (l : bytes) : state :=
  mkSt (st_env st) (l :: st_out st) (st_steps st) (st_errorlevel st) (st_pos st).
Definition set_errorlevel (st : state) (z : Z) : state :=
  mkSt (st_env st) (st_out st) (st_steps st) z (st_pos st).
Definition set_pos (st : state) (p : nat) : state :=
  mkSt (st_env st) (st_out st) (st_steps st) (st_errorlevel st) p.
Definition tick (st : state) : state :=
  mkSt (st_env st) (st_out st) (st_steps st + 1) (st_errorlevel st) (st_pos st).

(* what the Python model signals with exceptions *)
Inductive outcome :=
| ONormal (st : state)
| OGoto (label : bytes) (st : state)
| OExit (st : state)
| ODiverged
| OUnsupported.

(* ------------------------------------------------------------------ reading *)
Inductive rres :=
| RStmt (st : state) (cmds : list command) (next : nat)
| RUnsupported.

Definition read_statement (sc : script) (st : state) (pos : nat) (args : list bytes) : rres :=
  match nth_error (sc_info sc) pos with
  | None => RUnsupported
  | Some li =>
      if li_lf li then RStmt (set_env st (env_set kw_LF [10] (st_env st))) [] (pos + 3)%nat
      else
        match li_static li with
        | Some (cmds, next) => RStmt st cmds next
        | None =>
            match read_with (fun l => Some (percent (st_env st) args l)) (sc_raw sc) pos with
            | Some (cmds, next) => RStmt st cmds next
            | None => RUnsupported
            end
        end
  end.

Fixpoint find_idx (want : bytes) (ls : list line_info) (idx : nat) : option nat :=
  match ls with
  | [] => None
  | li :: r =>
      match li_label li with
      | Some name => if beq name want then Some idx else find_idx want r (S idx)
      | None => find_idx want r (S idx)
      end
  end.

Definition find_label_in (infos : list line_info) (want : bytes) (start : nat) : option nat :=
  match find_idx want (skipn start infos) start with
  | Some i => Some i
  | None => find_idx want (firstn start infos) 0
  end.

Definition find_label (sc : script) (label : bytes) (start : nat) : option nat :=
  let want := lower (drop_while (fun c => c =? 58) label) in
  if beq want kw_eof then Some (sc_n sc)
  else find_label_in (sc_info sc) want start.

(* ------------------------------------------------------------------ IF *)
Definition strip_one_lf (s : bytes) : bytes :=
  match rev s with
  | c :: r => if c =? 10 then rev r else s
  | [] => s
  end.

Definition as_int (s0 : bytes) : option Z :=
  let s := strip_one_lf s0 in
  let neg := hd_is 45 s in
  let ds := if neg || hd_is 43 s then tl s else s in
  if is_empty ds || negb (forallb is_digit ds) then None
  else if (1 <? length ds)%nat && hd_is 48 ds then
    (if forallb is_octal ds
     then Some (if neg then - Z.of_N (octal_n ds) else Z.of_N (octal_n ds))%Z
     else None)
  else Some (if neg then - Z.of_N (digits_n ds) else Z.of_N (digits_n ds))%Z.

Definition cmp_result (op : bytes) (c : comparison) : option bool :=
  if beq op kw_equ then Some (match c with Eq => true | _ => false end)
  else if beq op kw_neq then Some (match c with Eq => false | _ => true end)
  else if beq op kw_lss then Some (match c with Lt => true | _ => false end)
  else if beq op kw_leq then Some (match c with Gt => false | _ => true end)
  else if beq op kw_gtr then Some (match c with Gt => true | _ => false end)
  else if beq op kw_geq then Some (match c with Lt => false | _ => true end)
  else None.

Definition compare_texts (op l r : bytes) : option bool :=
  if beq op kw_eqeq then Some (beq l r)
  else
    match as_int l, as_int r with
    | Some a, Some b => cmp_result op (a ?= b)%Z
    | _, _ => cmp_result op (bcmp l r)
    end.

Definition condition (env : envt) (c : cond) (forvars : forvarst) : option bool :=
  match c with
  | CondDefined tok => Some (env_has (upper (delayed env (forsub tok forvars))) env)
  | CondExist _ => None
  | CondCmp lhs op rhs =>
      compare_texts op (delayed env (forsub lhs forvars)) (delayed env (forsub rhs forvars))
  end.

(* ------------------------------------------------------------------ set /A *)
Inductive tok := TNum (v : Z) | TId (name : bytes) | TOp (c : N) | TBad.

Definition is_arith_op (c : N) : bool :=
  (c =? 45) || (c =? 43) || (c =? 42) || (c =? 47) || (c =? 37) || (c =? 40) || (c =? 41)
  || (c =? 126) || (c =? 33).

Fixpoint tokenize (fuel : nat) (s : bytes) : option (list tok) :=
  match fuel with
  | O => None
  | S f =>
      match s with
      | [] => Some []
      | c :: r =>
          if is_space c then tokenize f r
          else if (c =? 48) && (hd_is 120 r || hd_is 88 r) && (match tl r with d :: _ => is_hex d | [] => false end) then
            let '(ds, rest) := span is_hex (tl r) in
            match tokenize f rest with
            | Some ts => Some (TNum (to_i32 (Z.of_N (hex_n ds))) :: ts)
            | None => None
            end
          else if is_digit c then
            let '(ds, rest) := span is_digit s in
            let t :=
              if (1 <? length ds)%nat && hd_is 48 ds
              then (if forallb is_octal ds then TNum (to_i32 (Z.of_N (octal_n ds))) else TBad)
              else TNum (to_i32 (Z.of_N (digits_n ds))) in
            match tokenize f rest with Some ts => Some (t :: ts) | None => None end
          else if is_alpha_ c then
            let '(nm, rest) := span is_word s in
            match tokenize f rest with Some ts => Some (TId nm :: ts) | None => None end
          else if is_arith_op c then
            match tokenize f r with Some ts => Some (TOp c :: ts) | None => None end
          else None
      end
  end.

Inductive ares :=
| AOk (v : Z) (rest : list tok)
| ADivZero
| AUnsupported.

Definition var_value (env : envt) (name : bytes) : Z :=
  match env_get (upper name) env with
  | None => 0%Z
  | Some v => match py_int v with Some z => to_i32 z | None => 0%Z end
  end.

Definition is_op (c : N) (t : list tok) : bool :=
  match t with
  | TOp d :: _ => d =? c
  | _ => false
  end.

(* one binary operation of set /A on two 32 bit integers; None: division by zero *)
Definition arith_op (o : N) (v w : Z) : option Z :=
  if o =? 42 then Some (to_i32 (v * w))
  else if o =? 43 then Some (to_i32 (v + w))
  else if o =? 45 then Some (to_i32 (v - w))
  else if (w =? 0)%Z then None
  else if o =? 47 then Some (to_i32 (Z.quot v w))
  else Some (to_i32 (v - Z.quot v w * w)).

Fixpoint atom (fuel : nat) (env : envt) (toks : list tok) : ares :=
  match fuel with
  | O => AUnsupported
  | S f =>
      match toks with
      | [] => AUnsupported
      | TBad :: _ => AUnsupported
      | TNum v :: r => AOk v r
      | TId nm :: r => AOk (var_value env nm) r
      | TOp c :: r =>
          if c =? 40 then
            match addsub f env r with
            | AOk v r' => if is_op 41 r' then AOk v (tl r') else AUnsupported
            | e => e
            end
          else if c =? 45 then
            match atom f env r with AOk v r' => AOk (to_i32 (- v)) r' | e => e end
          else if c =? 43 then atom f env r
          else if c =? 126 then
            match atom f env r with AOk v r' => AOk (to_i32 (- v - 1)) r' | e => e end
          else if c =? 33 then
            match atom f env r with AOk v r' => AOk (if (v =? 0)%Z then 1 else 0)%Z r' | e => e end
          else AOk (var_value env [c]) r       (* any other operator is looked up like a name *)
      end
  end

with muldiv_loop (fuel : nat) (env : envt) (v : Z) (toks : list tok) : ares :=
  match fuel with
  | O => AUnsupported
  | S f =>
      match toks with
      | TOp o :: r =>
          if (o =? 42) || (o =? 47) || (o =? 37) then
            match atom f env r with
            | AOk w r' =>
                match arith_op o v w with
                | Some v' => muldiv_loop f env v' r'
                | None => ADivZero
                end
            | e => e
            end
          else AOk v toks
      | _ => AOk v toks
      end
  end

with muldiv (fuel : nat) (env : envt) (toks : list tok) : ares :=
  match fuel with
  | O => AUnsupported
  | S f =>
      match atom f env toks with
      | AOk v r => muldiv_loop f env v r
      | e => e
      end
  end

with addsub_loop (fuel : nat) (env : envt) (v : Z) (toks : list tok) : ares :=
  match fuel with
  | O => AUnsupported
  | S f =>
      match toks with
      | TOp o :: r =>
          if (o =? 43) || (o =? 45) then
            match muldiv f env r with
            | AOk w r' =>
                match arith_op o v w with
                | Some v' => addsub_loop f env v' r'
                | None => ADivZero
                end
            | e => e
            end
          else AOk v toks
      | _ => AOk v toks
      end
  end

with addsub (fuel : nat) (env : envt) (toks : list tok) : ares :=
  match fuel with
  | O => AUnsupported
  | S f =>
      match muldiv f env toks with
      | AOk v r => addsub_loop f env v r
      | e => e
      end
  end.

Inductive arith_result := ArOk (v : Z) | ArDivZero | ArUnsupported.

Definition arith (env : envt) (expr : bytes) : arith_result :=
  match tokenize (S (length expr)) expr with
  | None => ArUnsupported
  | Some toks =>
      match addsub (4 * length toks + 8)%nat env toks with
      | AOk v [] => ArOk v
      | AOk _ (_ :: _) => ArUnsupported
      | ADivZero => ArDivZero
      | AUnsupported => ArUnsupported
      end
  end.

(* ------------------------------------------------------------------ set *)
Definition unquote_set (rest : bytes) : bytes :=
  if hd_is 34 rest then
    let body := tl rest in
    match find_byte 34 (rev body) with
    | Some (_, before_rev) => rev before_rev
    | None => body
    end
  else rest.

Definition do_set (st : state) (rest0 : bytes) : outcome :=
  let low := lower rest0 in
  let is_arith := has_prefix kw_slash_a low in
  if negb is_arith && has_prefix kw_slash_p low then OUnsupported
  else
    let rest1 := if is_arith then strip (skipn 2 rest0) else rest0 in
    let rest2 := unquote_set (delayed (st_env st) rest1) in
    match find_byte 61 rest2 with
    | None => OUnsupported
    | Some (name0, value0) =>
        let name := upper (if is_arith then strip name0 else name0) in
        if is_arith then
          match arith (st_env st) value0 with
          | ArUnsupported => OUnsupported
          | ArDivZero => ONormal (set_errorlevel (add_out st kw_div_zero) 1073750993)
          | ArOk v => ONormal (set_env st (env_set name (dec_Z v) (st_env st)))
          end
        else if is_empty value0 then ONormal (set_env st (env_pop name (st_env st)))
        else ONormal (set_env st (env_set name value0 (st_env st)))
    end.

(* ------------------------------------------------------------------ simple commands *)
(* re.findall of quoted-string or [^\s,;=]+ : the words of a call *)
Definition is_arg_sep (c : N) : bool := is_space c || (c =? 44) || (c =? 59) || (c =? 61).

Fixpoint call_parts (fuel : nat) (s : bytes) : list bytes :=
  match fuel with
  | O => []
  | S f =>
      match s with
      | [] => []
      | c :: r =>
          let quoted :=
            if c =? 34 then
              match find_byte 34 r with
              | Some (inner, rest) => Some (34 :: inner ++ [34], rest)
              | None => None
              end
            else None in
          match quoted with
          | Some (t, rest) => t :: call_parts f rest
          | None =>
              if is_arg_sep c then call_parts f r
              else
                let '(w, rest) := span (fun c => negb (is_arg_sep c)) s in
                w :: call_parts f rest
          end
      end
  end.

Definition add_lines (st : state) (ls : list bytes) : state :=
  fold_left add_out ls st.

Definition simple (callf : nat -> list bytes -> state -> outcome) (sc : script) (raw : bytes) (st : state)
  : outcome :=
  if is_empty raw then ONormal st
  else
    let low := lower raw in
    let env := st_env st in
    if has_prefix kw_rem low && (match skipn 3 low with [] => true | c :: _ => is_blank c end) then ONormal st
    else if has_prefix kw_setlocal low || has_prefix kw_endlocal low then ONormal st
    else if has_prefix kw_echo_dot low then ONormal (add_out st (delayed env (skipn 5 raw)))
    else if has_prefix kw_echo_sp low || beq low kw_echo then
      let text := delayed env (skipn 5 raw) in
      let t := lower (strip text) in
      if beq t kw_off || beq t kw_on then ONormal st
      else if is_empty t then ONormal (add_out st kw_echo_is_off)
      else ONormal (add_lines st (split_on 10 text))
    else if has_prefix kw_goto low then OGoto (strip (delayed env (skipn 4 raw))) st
    else if has_prefix kw_exit low then
      match words (delayed env (skipn 4 raw)) with
      | [] => OUnsupported
      | w :: rest =>
          if negb (beq (lower w) kw_slash_b) then OUnsupported
          else
            match rest with
            | [] => OExit st
            | code :: _ =>
                match py_int code with
                | Some z => OExit (set_errorlevel st z)
                | None => OUnsupported
                end
            end
      end
    else if has_prefix kw_call_sp low then
      let rest := strip (delayed env (skipn 5 raw)) in
      if negb (hd_is 58 rest) then OUnsupported
      else
        let parts := call_parts (S (length rest)) rest in
        match find_label sc (hd [] parts) (st_pos st) with
        | None => OUnsupported
        | Some target =>
            let saved := st_pos st in
            match callf (S target) parts st with
            | ONormal st' => ONormal (set_pos st' saved)
            | OExit st' => ONormal (set_pos st' saved)
            | OGoto _ _ => OUnsupported
            | ODiverged => ODiverged
            | OUnsupported => OUnsupported
            end
        end
    else if has_prefix kw_set_sp low then do_set st (strip (skipn 4 raw))
    else OUnsupported.

(* ------------------------------------------------------------------ running *)
Fixpoint seq_exec {A : Type} (f : A -> state -> outcome) (l : list A) (st : state) : outcome :=
  match l with
  | [] => ONormal st
  | x :: r =>
      match f x st with
      | ONormal st' => seq_exec f r st'
      | o => o
      end
  end.

Fixpoint forvars_set (k v : bytes) (fv : forvarst) : forvarst :=
  match fv with
  | [] => [(k, v)]
  | (k', v') :: r => if beq k k' then (k, v) :: r else (k', v') :: forvars_set k v r
  end.

Fixpoint run_frame (gas : nat) (sc : script) (max_steps : N) (pos : nat) (args : list bytes) (st : state)
  {struct gas} : outcome :=
  match gas with
  | O => ODiverged
  | S g =>
      (* statements without commands (blank lines, the LF idiom) cost no step: an inner loop on the
         number of lines that are left *)
      (fix loop (k : nat) (pos : nat) (st : state) {struct k} : outcome :=
         match k with
         | O => ONormal st
         | S k' =>
             if (sc_n sc <=? pos)%nat then ONormal st
             else
               match read_statement sc st pos args with
               | RUnsupported => OUnsupported
               | RStmt st1 cmds next =>
                   let st2 := set_pos st1 next in
                   match cmds with
                   | [] => loop k' next st2
                   | _ :: _ =>
                       match seq_exec (fun c => execute g sc max_steps c []) cmds st2 with
                       | ONormal st3 => run_frame g sc max_steps next args st3
                       | OGoto label st3 =>
                           match find_label sc label (st_pos st3) with
                           | None => OUnsupported
                           | Some p =>
                               run_frame g sc max_steps (if (p <? sc_n sc)%nat then S p else p) args st3
                           end
                       | OExit st3 => ONormal st3
                       | ODiverged => ODiverged
                       | OUnsupported => OUnsupported
                       end
                   end
               end
         end) (S (sc_n sc) - pos)%nat pos st
  end

with execute (gas : nat) (sc : script) (max_steps : N) (c : command) (forvars : forvarst) (st0 : state)
  {struct gas} : outcome :=
  match gas with
  | O => ODiverged
  | S g =>
      let st := tick st0 in
      if max_steps <? st_steps st then ODiverged
      else
        match c with
        | CLabel => ONormal st
        | CBlock body => seq_exec (fun x => execute g sc max_steps x forvars) body st
        | CIf negate cnd thn els =>
            match condition (st_env st) cnd forvars with
            | None => OUnsupported
            | Some r =>
                if xorb r negate then execute g sc max_steps thn forvars st
                else match els with
                     | Some e => execute g sc max_steps e forvars st
                     | None => ONormal st
                     end
            end
        | CFor var source body =>
            let src := strip (delayed (st_env st) (forsub source forvars)) in
            match src with
            | q :: r =>
                match rev r with
                | q' :: m =>
                    if (q =? 34) && (q' =? 34) then
                      seq_exec
                        (fun line s =>
                           if is_empty line || hd_is 59 line then ONormal s
                           else execute g sc max_steps body (forvars_set var line forvars) s)
                        (split_on 10 (rev m)) st
                    else OUnsupported
                | [] => OUnsupported
                end
            | [] => OUnsupported
            end
        | CSimple raw =>
            simple (fun p a s => run_frame g sc max_steps p a s) sc (forsub raw forvars) st
        end
  end.

(* ------------------------------------------------------------------ the whole script *)
Inductive cmd_result :=
| CmdRan (out : bytes) (status : Z)
| CmdFuel
| CmdUnsupported.

Definition render_out (lines_rev : list bytes) : bytes :=
  concat (map (fun l => l ++ [10]) (rev lines_rev)).

Definition init_state : state := mkSt [] [] 0 0%Z 0.

(* the name of the script (percent-0) is not known to the model: it is the empty text *)
Definition cmd_run (fuel : nat) (script : bytes) : cmd_result :=
  let sc := load_script script in
  match run_frame (2 * fuel + 4)%nat sc (N.of_nat fuel) 0 [[]] init_state with
  | ONormal st => CmdRan (render_out (st_out st)) (st_errorlevel st)
  | OExit st => CmdRan (render_out (st_out st)) (st_errorlevel st)
  | OGoto _ _ => CmdUnsupported
  | ODiverged => CmdFuel
  | OUnsupported => CmdUnsupported
  end.
