(* Decimal printing is inverted by decimal reading: integers keep their value through the text. *)
From Verif Require Import Base.Bytestr Front.Ast Front.FrontModel.
From Coq Require Import ZArith Lia ZifyBool ZifyN.
Open Scope N_scope.
Ltac Zify.zify_post_hook ::= Z.div_mod_to_equations.

Lemma digit_char n : n < 10 -> is_digit (48 + n) = true /\ 48 + n - 48 = n.
Proof. intro H. unfold is_digit. lia. Qed.

Lemma dec_fuel_val fuel : forall n acc, n < 2 ^ N.of_nat fuel ->
  exists k, forall a, digits_val (dec_fuel fuel n acc) a = digits_val acc (a * 10 ^ k + n).
Proof.
  induction fuel as [|f IH]; intros n acc Hn.
  - simpl in Hn. assert (n = 0) by lia. subst. exists 0. intro a. simpl. f_equal. lia.
  - cbn [dec_fuel]. destruct (n <? 10) eqn:E.
    + exists 1. intro a. cbn [digits_val].
      assert (n mod 10 = n) as Hm by (apply N.mod_small; lia). rewrite Hm.
      destruct (digit_char n ltac:(lia)) as [Hd Hv]. rewrite Hd, Hv. f_equal; lia.
    + assert (n / 10 < 2 ^ N.of_nat f) as Hlt.
      { rewrite Nat2N.inj_succ, N.pow_succ_r' in Hn. assert (n / 10 <= n / 2) by (apply N.div_le_compat_l; lia).
        assert (n / 2 < 2 ^ N.of_nat f) by (apply N.div_lt_upper_bound; lia). lia. }
      destruct (IH (n / 10) (48 + n mod 10 :: acc) Hlt) as (k & Hk). exists (k + 1). intro a.
      rewrite Hk. cbn [digits_val].
      assert (n mod 10 < 10) as Hm by (apply N.mod_lt; lia).
      destruct (digit_char (n mod 10) Hm) as [Hd Hv]. rewrite Hd, Hv. f_equal.
      rewrite N.pow_add_r, N.pow_1_r. pose proof (N.div_mod n 10 ltac:(lia)). nia.
Qed.

Theorem digits_dec_N n : digits_val (dec_N n) 0 = Some n.
Proof.
  unfold dec_N. destruct (dec_fuel_val (S (N.to_nat (N.log2 n))) n []) as (k & Hk).
  - rewrite Nat2N.inj_succ, N2Nat.id. destruct n as [|p]; [simpl; lia|]. apply N.log2_spec. lia.
  - rewrite Hk. simpl. f_equal; lia.
Qed.

Lemma dec_N_nonempty n : dec_N n <> [].
Proof. intro H. pose proof (digits_dec_N n) as D. rewrite H in D. simpl in D. inversion D. subst.
  unfold dec_N in H. simpl in H. discriminate. Qed.

Theorem dec_N_inj a b : dec_N a = dec_N b -> a = b.
Proof. intro H. pose proof (digits_dec_N a) as A. rewrite H, digits_dec_N in A. congruence. Qed.

Lemma dec_N_digits n : forallb is_digit (dec_N n) = true.
Proof.
  assert (forall s a v, digits_val s a = Some v -> forallb is_digit s = true) as Hd.
  { induction s as [|c r IH]; intros a v H; [reflexivity|]. simpl in *. destruct (is_digit c); [|discriminate]. simpl. eapply IH; exact H. }
  eapply Hd. apply digits_dec_N.
Qed.

(* the parser's reading of an integer literal inverts the converters' IntToString, on all of int64 *)
Theorem atoi_dec_Z z : (-9223372036854775808 <= z <= 9223372036854775807)%Z -> atoi (dec_Z z) = Some z.
Proof.
  intro Hz. unfold atoi, dec_Z. destruct z as [|p|p].
  - reflexivity.
  - pose proof (dec_N_digits (Npos p)) as Hd. pose proof (dec_N_nonempty (Npos p)) as Hne.
    destruct (dec_N (Npos p)) as [|c r] eqn:E; [congruence|].
    assert (hd_is 45 (c :: r) = false) as Hc.
    { simpl in Hd. apply andb_true_iff in Hd as [Hc _]. unfold is_digit in Hc. simpl. lia. }
    rewrite Hc. cbv zeta. cbv iota. rewrite <- E, digits_dec_N.
    replace (Z.of_N (N.pos p)) with (Z.pos p) by reflexivity.
    destruct ((-9223372036854775808 <=? Z.pos p)%Z && (Z.pos p <=? 9223372036854775807)%Z) eqn:Er; [reflexivity|lia].
  - pose proof (dec_N_nonempty (Npos p)) as Hne.
    change (hd_is 45 (45 :: dec_N (N.pos p))) with true. cbv zeta. cbv iota. cbn [tl].
    destruct (dec_N (Npos p)) as [|c r] eqn:E; [congruence|]. rewrite <- E, digits_dec_N.
    replace (- Z.of_N (N.pos p))%Z with (Z.neg p) by reflexivity.
    destruct ((-9223372036854775808 <=? Z.neg p)%Z && (Z.neg p <=? 9223372036854775807)%Z) eqn:Er; [reflexivity|lia].
Qed.

Lemma dec_N_not_zero_text p : dec_N (Npos p) <> [48].
Proof. intro H. pose proof (digits_dec_N (Npos p)) as D. rewrite H in D. simpl in D. discriminate. Qed.

Lemma dec_N_not_minus n r : dec_N n <> 45 :: r.
Proof. intro H. pose proof (dec_N_digits n) as D. rewrite H in D. simpl in D. discriminate. Qed.

Theorem dec_Z_inj a b : dec_Z a = dec_Z b -> a = b.
Proof.
  intro H. destruct a as [|p|p], b as [|q|q]; cbn [dec_Z] in H; try reflexivity.
  - symmetry in H. exfalso. exact (dec_N_not_zero_text q H).
  - discriminate.
  - exfalso. exact (dec_N_not_zero_text p H).
  - apply dec_N_inj in H. congruence.
  - exfalso. exact (dec_N_not_minus _ _ H).
  - discriminate.
  - symmetry in H. exfalso. exact (dec_N_not_minus _ _ H).
  - inversion H as [H1]. apply dec_N_inj in H1. congruence.
Qed.
