(* Bytes are natural numbers below 256 kept in N; a byte string is a list of them.
   Utilities shared by all models: prefixes, searching, decimal printing. *)
From Coq Require Export List NArith Bool Lia.
Require Coq.Strings.String Coq.Strings.Ascii.
Export ListNotations.
Export Coq.Strings.String.StringSyntax.
Open Scope N_scope.

Definition byte := N.
Definition bytes := list N.

(* ASCII literal -> bytes (used for templates and keywords in the models) *)
Fixpoint bs (s : String.string) : bytes :=
  match s with
  | String.EmptyString => []
  | String.String a r => Ascii.N_of_ascii a :: bs r
  end.
Arguments bs _%string_scope.

Fixpoint beq (a b : bytes) : bool :=
  match a, b with
  | [], [] => true
  | x :: a', y :: b' => (x =? y) && beq a' b'
  | _, _ => false
  end.

Lemma beq_eq a b : beq a b = true <-> a = b.
Proof.
  revert b; induction a as [|x a IH]; intros [|y b]; simpl; split; intro H; try congruence; try discriminate.
  - apply andb_true_iff in H as [H1 H2]. apply N.eqb_eq in H1. apply IH in H2. congruence.
  - inversion H; subst. rewrite N.eqb_refl. simpl. apply IH. reflexivity.
Qed.

Lemma beq_refl a : beq a a = true.
Proof. apply beq_eq. reflexivity. Qed.

(* [strip_prefix p s] = Some rest when s = p ++ rest *)
Fixpoint strip_prefix (p s : bytes) : option bytes :=
  match p, s with
  | [], _ => Some s
  | x :: p', y :: s' => if x =? y then strip_prefix p' s' else None
  | _ :: _, [] => None
  end.

Lemma strip_prefix_app p r : strip_prefix p (p ++ r) = Some r.
Proof. induction p as [|x p IH]; simpl; [reflexivity|]. rewrite N.eqb_refl. exact IH. Qed.

Lemma strip_prefix_some p s r : strip_prefix p s = Some r -> s = p ++ r.
Proof.
  revert s; induction p as [|x p IH]; intros s H; simpl in *.
  - congruence.
  - destruct s as [|y s]; [discriminate|]. destruct (x =? y) eqn:E; [|discriminate].
    apply N.eqb_eq in E. subst. f_equal. apply IH. exact H.
Qed.

Definition has_prefix (p s : bytes) : bool :=
  match strip_prefix p s with Some _ => true | None => false end.

Definition hd_is (c : N) (s : bytes) : bool :=
  match s with d :: _ => d =? c | [] => false end.

(* character classes *)
Definition is_digit (c : N) : bool := (48 <=? c) && (c <=? 57).
Definition is_upper (c : N) : bool := (65 <=? c) && (c <=? 90).
Definition is_lower (c : N) : bool := (97 <=? c) && (c <=? 122).
Definition is_alpha_ (c : N) : bool := is_upper c || is_lower c || (c =? 95).
Definition is_word (c : N) : bool := is_alpha_ c || is_digit c.

(* split off the longest prefix whose bytes satisfy p *)
Fixpoint span (p : N -> bool) (s : bytes) : bytes * bytes :=
  match s with
  | [] => ([], [])
  | c :: r => if p c then let '(a, b) := span p r in (c :: a, b) else ([], s)
  end.

Lemma span_app p s : fst (span p s) ++ snd (span p s) = s.
Proof. induction s as [|c r IH]; simpl; [reflexivity|]. destruct (p c); [|reflexivity].
  destruct (span p r) as [a b]; simpl in *. congruence. Qed.

Lemma span_all p a r :
  forallb p a = true -> (match r with [] => true | c :: _ => negb (p c) end) = true ->
  span p (a ++ r) = (a, r).
Proof.
  induction a as [|c a IH]; simpl; intros Ha Hr.
  - destruct r as [|c r]; [reflexivity|]. simpl. destruct (p c); [discriminate|reflexivity].
  - apply andb_true_iff in Ha as [Hc Ha]. rewrite Hc. rewrite IH by assumption. reflexivity.
Qed.

(* decimal rendering of N and Z *)
Fixpoint dec_fuel (fuel : nat) (n : N) (acc : bytes) : bytes :=
  match fuel with
  | O => acc
  | S f => let d := 48 + n mod 10 in
           if n <? 10 then d :: acc else dec_fuel f (n / 10) (d :: acc)
  end.
Definition dec_N (n : N) : bytes := dec_fuel (S (N.to_nat (N.log2 n))) n [].

Definition dec_Z (z : Z) : bytes :=
  match z with
  | Z0 => [48]
  | Zpos p => dec_N (Npos p)
  | Zneg p => 45 :: dec_N (Npos p)
  end.

Definition concat_bytes (l : list bytes) : bytes := List.concat l.

Fixpoint join (sep : bytes) (l : list bytes) : bytes :=
  match l with
  | [] => []
  | [x] => x
  | x :: r => x ++ sep ++ join sep r
  end.
