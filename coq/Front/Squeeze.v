(* Mirror of the token normalisation at the start of parser.parse (/repo/parser/parser.go):
   positions are dropped (the parser only uses them in error texts), every run of NEWLINE
   tokens is collapsed into one, a NEWLINE at the very start and one right before EOF are
   removed. *)
From Verif Require Import Base.Bytestr gen.Tables Lex.LexModel.

Definition ptoken := (toktype * bytes)%type.

Definition is_nl (t : ptoken) : bool := match fst t with NEWLINE => true | _ => false end.
Definition is_eof (t : ptoken) : bool := match fst t with EOF => true | _ => false end.

(* slices.CompactFunc(tokens, both NEWLINE) *)
Fixpoint compact (l : list ptoken) : list ptoken :=
  match l with
  | [] => []
  | a :: r =>
      match r with
      | b :: _ => if is_nl a && is_nl b then compact r else a :: compact r
      | [] => [a]
      end
  end.

Definition drop_leading_nl (l : list ptoken) : list ptoken :=
  match l with
  | a :: r => if is_nl a then r else l
  | [] => []
  end.

Fixpoint drop_nl_before_eof (l : list ptoken) : list ptoken :=
  match l with
  | [] => []
  | a :: r =>
      match r with
      | [b] => if is_nl a && is_eof b then r else a :: drop_nl_before_eof r
      | _ => a :: drop_nl_before_eof r
      end
  end.

Definition squeeze (l : list ptoken) : list ptoken :=
  drop_nl_before_eof (drop_leading_nl (compact l)).

Definition strip_tok (t : token) : ptoken := (ty t, val t).

(* what the parser works on *)
Definition parser_input (r : lexres) : option (list ptoken) :=
  match r with
  | LexOk ts => Some (squeeze (map strip_tok ts))
  | _ => None
  end.
