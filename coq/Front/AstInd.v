(* Induction principles for the nested AST types. *)
From Verif Require Import Base.Bytestr Front.Ast.
From Coq Require Import ZArith.

Section ExprInd.
  Variable P : expr -> Prop.
  Hypothesis Hbool : forall b, P (EBool b).
  Hypothesis Hint : forall z, P (EInt z).
  Hypothesis Hstr : forall s, P (EStr s).
  Hypothesis Hun : forall e, P e -> P (EUnary e).
  Hypothesis Hbin : forall l op r, P l -> P r -> P (EBinary l op r).
  Hypothesis Hcmp : forall l op r, P l -> P r -> P (ECompare l op r).
  Hypothesis Hlog : forall l op r, P l -> P r -> P (ELogical l op r).
  Hypothesis Hvar : forall v, P (EVar v).
  Hypothesis Hgrp : forall e, P e -> P (EGroup e).
  Hypothesis Hcall : forall n rets args, Forall P args -> P (ECall n rets args).
  Hypothesis Happ : forall calls, Forall (fun c => Forall P (snd c)) calls -> P (EApp calls).
  Hypothesis Hsi : forall d vals, Forall P vals -> P (ESliceInst d vals).
  Hypothesis Hse : forall v i d, P v -> P i -> P (ESliceEval v i d).
  Hypothesis Hsub : forall v a b, P v -> P a -> (match b with Some x => P x | None => True end) -> P (ESubscript v a b).
  Hypothesis Hlen : forall e, P e -> P (ELen e).
  Hypothesis Hin : forall p, (match p with Some x => P x | None => True end) -> P (EInput p).
  Hypothesis Hcopy : forall d s, P s -> P (ECopy d s).
  Hypothesis Hitoa : forall e, P e -> P (EItoa e).
  Hypothesis Hex : forall e, P e -> P (EExists e).
  Hypothesis Hrd : forall e, P e -> P (ERead e).

  Fixpoint expr_ind' (e : expr) : P e :=
    let list_ind := fix li (l : list expr) : Forall P l :=
      match l with [] => Forall_nil P | x :: r => Forall_cons x (expr_ind' x) (li r) end in
    match e with
    | EBool b => Hbool b
    | EInt z => Hint z
    | EStr s => Hstr s
    | EUnary x => Hun x (expr_ind' x)
    | EBinary l op r => Hbin l op r (expr_ind' l) (expr_ind' r)
    | ECompare l op r => Hcmp l op r (expr_ind' l) (expr_ind' r)
    | ELogical l op r => Hlog l op r (expr_ind' l) (expr_ind' r)
    | EVar v => Hvar v
    | EGroup x => Hgrp x (expr_ind' x)
    | ECall n rets args => Hcall n rets args (list_ind args)
    | EApp calls =>
        Happ calls ((fix ci (l : list (bytes * list expr)) : Forall (fun c => Forall P (snd c)) l :=
                       match l with
                       | [] => Forall_nil _
                       | c :: r => Forall_cons c (list_ind (snd c)) (ci r)
                       end) calls)
    | ESliceInst d vals => Hsi d vals (list_ind vals)
    | ESliceEval v i d => Hse v i d (expr_ind' v) (expr_ind' i)
    | ESubscript v a b => Hsub v a b (expr_ind' v) (expr_ind' a) (match b with Some x => expr_ind' x | None => I end)
    | ELen x => Hlen x (expr_ind' x)
    | EInput p => Hin p (match p with Some x => expr_ind' x | None => I end)
    | ECopy d s => Hcopy d s (expr_ind' s)
    | EItoa x => Hitoa x (expr_ind' x)
    | EExists x => Hex x (expr_ind' x)
    | ERead x => Hrd x (expr_ind' x)
    end.
End ExprInd.

Section StmtInd.
  Variable P : stmt -> Prop.
  Hypothesis Hdef : forall vs es, P (SVarDef vs es).
  Hypothesis Hdefc : forall vs c, P (SVarDefCall vs c).
  Hypothesis Hasg : forall vs es, P (SAssign vs es).
  Hypothesis Hasgc : forall vs c, P (SAssignCall vs c).
  Hypothesis Hsa : forall v i x, P (SSliceAssign v i x).
  Hypothesis Hfn : forall n rets ps body pub, Forall P body -> P (SFunc n rets ps body pub).
  Hypothesis Hret : forall es, P (SReturn es).
  Hypothesis Hif : forall brs els, Forall (fun b => Forall P (snd b)) brs -> Forall P els -> P (SIf brs els).
  Hypothesis Hfor : forall i c n body,
    (match i with Some x => P x | None => True end) -> (match n with Some x => P x | None => True end) ->
    Forall P body -> P (SFor i c n body).
  Hypothesis Hbrk : P SBreak.
  Hypothesis Hcont : P SContinue.
  Hypothesis Hpr : forall es, P (SPrint es).
  Hypothesis Hpan : forall e, P (SPanic e).
  Hypothesis Hwr : forall p d a, P (SWrite p d a).
  Hypothesis Hx : forall e, P (SExpr e).

  Fixpoint stmt_ind' (s : stmt) : P s :=
    let list_ind := fix li (l : list stmt) : Forall P l :=
      match l with [] => Forall_nil P | x :: r => Forall_cons x (stmt_ind' x) (li r) end in
    match s with
    | SVarDef vs es => Hdef vs es
    | SVarDefCall vs c => Hdefc vs c
    | SAssign vs es => Hasg vs es
    | SAssignCall vs c => Hasgc vs c
    | SSliceAssign v i x => Hsa v i x
    | SFunc n rets ps body pub => Hfn n rets ps body pub (list_ind body)
    | SReturn es => Hret es
    | SIf brs els =>
        Hif brs els ((fix bi (l : list (expr * list stmt)) : Forall (fun b => Forall P (snd b)) l :=
                        match l with [] => Forall_nil _ | b :: r => Forall_cons b (list_ind (snd b)) (bi r) end) brs)
            (list_ind els)
    | SFor i c n body =>
        Hfor i c n body (match i with Some x => stmt_ind' x | None => I end)
             (match n with Some x => stmt_ind' x | None => I end) (list_ind body)
    | SBreak => Hbrk
    | SContinue => Hcont
    | SPrint es => Hpr es
    | SPanic e => Hpan e
    | SWrite p d a => Hwr p d a
    | SExpr e => Hx e
    end.
End StmtInd.
