(* Deciding the C06 table inside Coq: every entry is run through the model of the whole pipeline. *)
From Verif Require Import Base.Bytestr gen.Tables Lex.LexModel Front.Squeeze Front.Ast Front.FrontModel
  Back.Transpile Back.BashConv Back.BatchConv Back.Pipeline gen.C06Table.
Open Scope N_scope.

Definition table_env (src : bytes) : env :=
  mkEnv [(bs "/V/main.tsh", mkFe src (bs "i0000000"))] (bs "/std").

Inductive verdict := Accepted | Rejected | Mixed.

(* accepted: a script for both targets; rejected: an error for both (the file is parsed once) *)
Definition verdict_of (src : bytes) : verdict :=
  match parse_main (table_env src) (bs "/V/main.tsh") with
  | POk body _ _ _ =>
      match emit TBash body, emit TBatch body with
      | Script _, Script _ => Accepted
      | Failed, Failed => Rejected
      | _, _ => Mixed
      end
  | PErr => Rejected
  | PFuel => Mixed
  end.

Lemma verdict_transpile src :
  verdict_of src = match transpile (table_env src) (bs "/V/main.tsh") TBash, transpile (table_env src) (bs "/V/main.tsh") TBatch with
                   | Script _, Script _ => Accepted
                   | Failed, Failed => Rejected
                   | _, _ => Mixed
                   end.
Proof.
  unfold verdict_of, transpile, transpile_entry, parse_main, lookup_file, table_env. cbn [e_fs].
  change (aget (bs "/V/main.tsh") [(bs "/V/main.tsh", mkFe src (bs "i0000000"))]) with (Some (mkFe src (bs "i0000000"))).
  cbv iota beta.
  match goal with |- context [parse_entry ?a ?b ?c ?d ?e ?f ?g] => destruct (parse_entry a b c d e f g) as [body u p i| |] end; reflexivity.
Qed.

Definition entry_ok_gen (pre : bytes) (e : bytes * bool * bytes) : bool :=
  let '(tail, acc, fnd) := e in
  match fnd with
  | [] => match verdict_of (pre ++ tail), acc with Accepted, true | Rejected, false => true | _, _ => false end
  | _ => true          (* entries recorded as findings are stated separately *)
  end.

Definition entry_finding_gen (pre : bytes) (e : bytes * bool * bytes) : bool :=
  let '(tail, acc, fnd) := e in
  match fnd with
  | [] => false
  | _ => match verdict_of (pre ++ tail), acc with Accepted, false => true | _, _ => false end
  end.

Section Generic.
  Variable pre : bytes.
  Variable table : list (bytes * bool * bytes).
  Hypothesis Hall : forallb (entry_ok_gen pre) table = true.
  Hypothesis Hsome : existsb (entry_finding_gen pre) table = true.

  Theorem table_entries : forall tail acc, In (tail, acc, []) table ->
    verdict_of (pre ++ tail) = if acc then Accepted else Rejected.
  Proof.
    intros tail acc Hin. rewrite forallb_forall in Hall. specialize (Hall _ Hin). cbn [entry_ok_gen] in Hall.
    destruct (verdict_of (pre ++ tail)), acc; try discriminate; reflexivity.
  Qed.

  Theorem table_findings : exists e, In e table /\ entry_finding_gen pre e = true.
  Proof. apply existsb_exists in Hsome. exact Hsome. Qed.
End Generic.

Lemma all_entries_ok : forallb (entry_ok_gen c06_prelude) c06_table = true.
Proof. vm_compute. reflexivity. Qed.

Lemma some_finding_witness : existsb (entry_finding_gen c06_prelude) c06_table = true.
Proof. vm_compute. reflexivity. Qed.
