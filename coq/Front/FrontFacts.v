(* Facts about the parser model used by C12, C13, C14, C09. *)
From Verif Require Import Base.Bytestr gen.Tables Lex.LexModel Front.Squeeze Front.Ast Front.FrontModel.
From Coq Require Import Lia.
Open Scope N_scope.

(* The main file enters the parser only through its normalised token list: two contents with the
   same [parser_input] give the same parse result (AST, call graph), whatever else differs. *)
Lemma parse_entry_tokens E depth stack inc path fe1 fe2 :
  parser_input (tokenize (fe_content fe1)) = parser_input (tokenize (fe_content fe2)) ->
  parse_entry E depth stack inc path false fe1 = parse_entry E depth stack inc path false fe2.
Proof. intro H. destruct depth as [|d]; [reflexivity|]. cbn [parse_entry]. rewrite H. reflexivity. Qed.

(* ---------- getUsedFuncs: the kept set contains everything reachable (C09) ---------- *)

Definition succs (u : list (bytes * list bytes)) (x : bytes) : list bytes :=
  match aget x u with Some l => l | None => [] end.

Lemma mem_In k l : mem k l = true <-> In k l.
Proof.
  induction l as [|x l IH]; simpl; [split; [discriminate|tauto]|].
  rewrite orb_true_iff, IH, beq_eq. split; intros [H|H]; auto.
Qed.

(* the worklist closure: when it finishes, its result contains the start set and the previously
   seen names and is closed under the call relation *)
Lemma reach_closed u : forall fuel work seen R,
  reach u fuel work seen = Some R ->
  (forall x y, In x seen -> In y (succs u x) -> In y seen \/ In y work) ->
  (forall x, In x seen -> In x R) /\ (forall x, In x work -> In x R) /\
  (forall x y, In x R -> In y (succs u x) -> In y R).
Proof.
  induction fuel as [|f IH]; intros work seen R HR Hc.
  - destruct work as [|w ws]; [|discriminate]. inversion HR; subst.
    split; [auto|]. split; [intros x []|]. intros x y Hx Hy. destruct (Hc x y Hx Hy) as [H|[]]. exact H.
  - destruct work as [|w ws].
    + inversion HR; subst. split; [auto|]. split; [intros x []|]. intros x y Hx Hy. destruct (Hc x y Hx Hy) as [H|[]]. exact H.
    + cbn [reach] in HR. destruct (mem w seen) eqn:Em.
      * destruct (IH ws seen R HR) as (A & B & C).
        { intros a b Ha Hb. destruct (Hc a b Ha Hb) as [H|[H|H]]; auto. subst. left. apply mem_In. exact Em. }
        split; [exact A|]. split; [|exact C].
        intros x [Hx|Hx]; [subst; apply A; apply mem_In; exact Em|apply B; exact Hx].
      * destruct (IH _ _ R HR) as (A & B & C).
        { intros a b Ha Hb. destruct Ha as [Ha|Ha].
          - subst a. right. unfold succs in Hb. destruct (aget w u); [apply in_or_app; left; exact Hb|contradiction].
          - destruct (Hc a b Ha Hb) as [H|[H|H]].
            + left. right. exact H.
            + subst. left. left. reflexivity.
            + right. destruct (aget w u); [apply in_or_app; right; exact H|exact H]. }
        split; [intros x Hx; apply A; right; exact Hx|]. split; [|exact C].
        intros x [Hx|Hx]; [subst; apply A; left; reflexivity|].
        apply B. destruct (aget w u); [apply in_or_app; right; exact Hx|exact Hx].
Qed.

(* reachability in the recorded call graph, starting from the callees of top-level code *)
Inductive reachable (u : list (bytes * list bytes)) : bytes -> Prop :=
| reach_top : forall y, In y (succs u []) -> reachable u y
| reach_step : forall x y, reachable u x -> In y (succs u x) -> reachable u y.

Theorem used_funcs_complete u keep :
  used_funcs u = Some keep -> forall f, reachable u f -> In f keep.
Proof.
  unfold used_funcs. intros H f Hr.
  apply reach_closed in H; [|intros x y []].
  destruct H as (_ & B & C).
  induction Hr as [y Hy|x y _ IH Hy]; [apply B; exact Hy|eapply C; eassumption].
Qed.

(* cleanProgram keeps every definition of a reachable function *)
Theorem clean_keeps_reachable u body body' name rets params fb pub :
  clean_program u body = Some body' ->
  In (SFunc name rets params fb pub) body -> reachable u name ->
  In (SFunc name rets params fb pub) body'.
Proof.
  unfold clean_program. destruct (used_funcs u) as [keep|] eqn:E; [|discriminate].
  intros H Hin Hr. inversion H; subst. apply filter_In. split; [exact Hin|].
  apply mem_In. eapply used_funcs_complete; eassumption.
Qed.

(* ... and everything that is not a function definition *)
Theorem clean_keeps_statements u body body' s :
  clean_program u body = Some body' -> In s body ->
  (match s with SFunc _ _ _ _ _ => False | _ => True end) -> In s body'.
Proof.
  unfold clean_program. destruct (used_funcs u) as [keep|]; [|discriminate].
  intros H Hin Hs. inversion H; subst. apply filter_In. split; [exact Hin|]. destruct s; try reflexivity; contradiction.
Qed.

(* ---------- association lists ---------- *)

Lemma aget_aset_same {V} k (v : V) m : aget k (aset k v m) = Some v.
Proof. induction m as [|[k' v'] m IH]; simpl; [rewrite beq_refl; reflexivity|].
  destruct (beq k k') eqn:E; simpl; [rewrite beq_refl; reflexivity|rewrite E; exact IH]. Qed.

Lemma aget_aset_other {V} k k' (v : V) m : k <> k' -> aget k (aset k' v m) = aget k m.
Proof.
  intro Hn. induction m as [|[k2 v2] m IH]; simpl.
  - destruct (beq k k') eqn:E; [apply beq_eq in E; contradiction|reflexivity].
  - destruct (beq k' k2) eqn:E2; simpl.
    + apply beq_eq in E2. subst k2. destruct (beq k k') eqn:E; [apply beq_eq in E; contradiction|reflexivity].
    + destruct (beq k k2); [reflexivity|exact IH].
Qed.

Definition merge_one (acc : list (bytes * list bytes)) (kv : bytes * list bytes) : list (bytes * list bytes) :=
  let '(k, l) := kv in
  match aget k acc with
  | None => aset k l acc
  | Some found => aset k (found ++ filter (fun x => negb (mem x found)) l) acc
  end.

Lemma merge_used_fold mine theirs : merge_used mine theirs = fold_left merge_one theirs mine.
Proof. reflexivity. Qed.

Lemma merge_one_has acc k l x : In x l -> exists l', aget k (merge_one acc (k, l)) = Some l' /\ In x l'.
Proof.
  intro Hx. unfold merge_one. destruct (aget k acc) as [found|] eqn:E.
  - rewrite aget_aset_same. eexists. split; [reflexivity|].
    destruct (mem x found) eqn:Em.
    + apply in_or_app. left. apply mem_In. exact Em.
    + apply in_or_app. right. apply filter_In. split; [exact Hx|]. rewrite Em. reflexivity.
  - rewrite aget_aset_same. eexists. split; [reflexivity|exact Hx].
Qed.

Lemma merge_one_preserves acc k k2 l2 l x :
  k <> k2 -> aget k acc = Some l -> In x l -> exists l', aget k (merge_one acc (k2, l2)) = Some l' /\ In x l'.
Proof.
  intros Hn Hg Hx. unfold merge_one. destruct (aget k2 acc); rewrite aget_aset_other by exact Hn; eauto.
Qed.

Lemma fold_preserves theirs : forall acc k l x,
  ~ In k (map fst theirs) -> aget k acc = Some l -> In x l ->
  exists l', aget k (fold_left merge_one theirs acc) = Some l' /\ In x l'.
Proof.
  induction theirs as [|[k2 l2] theirs IH]; intros acc k l x Hni Hg Hx; [eauto|].
  cbn [fold_left]. simpl in Hni.
  destruct (merge_one_preserves acc k k2 l2 l x) as (l' & G & I); [intro; subst; tauto|exact Hg|exact Hx|].
  eapply IH; [tauto|exact G|exact I].
Qed.

Theorem merge_used_keeps mine theirs k l x :
  aget k theirs = Some l -> In x l -> NoDup (map fst theirs) ->
  exists l', aget k (merge_used mine theirs) = Some l' /\ In x l'.
Proof.
  rewrite merge_used_fold. revert mine. induction theirs as [|[k2 l2] theirs IH]; intros mine Hg Hx Hnd; [discriminate|].
  cbn [fold_left]. simpl in Hg. inversion Hnd as [|? ? Hni Hnd']; subst.
  destruct (beq k k2) eqn:E.
  - apply beq_eq in E. subst k2. inversion Hg; subst l2.
    destruct (merge_one_has mine k l x Hx) as (l' & G & I).
    eapply fold_preserves; [exact Hni|exact G|exact I].
  - apply IH; assumption.
Qed.
