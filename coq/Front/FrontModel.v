(* Model of /repo/parser/parser.go: recursive descent over position-less tokens, with name
   resolution, type checking and desugaring interleaved exactly as in the Go code.
   Go's mutable parser fields (index, currFunc, usedFuncs) are a threaded state; contexts are
   association lists cloned where Go clones its maps; every recursion carries fuel. *)
From Verif Require Import Base.Bytestr gen.Tables Lex.LexModel Front.Squeeze Front.Ast.
From Coq Require Import ZArith.
Open Scope N_scope.

(* ---------- parser state and monad ---------- *)

Record pstate := mkPS {
  toks : list ptoken;                       (* tokens from p.index on *)
  curr_func : bytes;                        (* p.currFunc *)
  used : list (bytes * list bytes)          (* p.usedFuncs, in insertion order *)
}.

Inductive res (A : Type) :=
| Ok (a : A) (s : pstate)
| Err
| Fuel.
Arguments Ok {A}. Arguments Err {A}. Arguments Fuel {A}.

Definition P (A : Type) := pstate -> res A.

Definition ret {A} (a : A) : P A := fun s => Ok a s.
Definition fail {A} : P A := fun _ => Err.
Definition nofuel {A} : P A := fun _ => Fuel.
Definition bind {A B} (m : P A) (f : A -> P B) : P B :=
  fun s => match m s with Ok a s' => f a s' | Err => Err | Fuel => Fuel end.

Notation "x <- m ;; k" := (bind m (fun x => k)) (at level 61, m at next level, right associativity).
Notation "m ;;; k" := (bind m (fun _ => k)) (at level 61, right associativity).

Definition zero_tok : ptoken := (UNKNOWN, []).

(* p.peekAt(n) *)
Definition peek_at (n : nat) : P ptoken := fun s => Ok (nth n (toks s) zero_tok) s.
Definition peek : P ptoken := peek_at 0.
(* p.eat() *)
Definition eat : P ptoken := fun s => Ok (nth 0 (toks s) zero_tok) (mkPS (tl (toks s)) (curr_func s) (used s)).

Definition tt_eqb (a b : toktype) : bool := toktype_beq a b.
Definition tok_is (t : ptoken) (ty : toktype) : bool := tt_eqb (fst t) ty.

Definition guard (b : bool) : P unit := if b then ret tt else fail.

(* eat a token that must have the given type *)
Definition expect (ty : toktype) : P ptoken :=
  t <- eat ;; guard (tok_is t ty) ;;; ret t.

Definition get_curr_func : P bytes := fun s => Ok (curr_func s) s.
Definition set_curr_func (f : bytes) : P unit := fun s => Ok tt (mkPS (toks s) f (used s)).
Definition get_used : P (list (bytes * list bytes)) := fun s => Ok (used s) s.
Definition set_used (u : list (bytes * list bytes)) : P unit := fun s => Ok tt (mkPS (toks s) (curr_func s) u).

(* ---------- association lists standing for Go maps ---------- *)

Section Assoc.
  Context {V : Type}.
  Fixpoint aget (k : bytes) (m : list (bytes * V)) : option V :=
    match m with
    | [] => None
    | (k', v) :: r => if beq k k' then Some v else aget k r
    end.
  Fixpoint aset (k : bytes) (v : V) (m : list (bytes * V)) : list (bytes * V) :=
    match m with
    | [] => [(k, v)]
    | (k', v') :: r => if beq k k' then (k, v) :: r else (k', v') :: aset k v r
    end.
End Assoc.

Fixpoint mem (k : bytes) (l : list bytes) : bool :=
  match l with [] => false | x :: r => beq k x || mem k r end.

(* ---------- contexts ---------- *)

Inductive scope := ScProgram | ScFunction | ScIf | ScFor | ScSwitch.
Definition scope_eqb (a b : scope) : bool :=
  match a, b with
  | ScProgram, ScProgram | ScFunction, ScFunction | ScIf, ScIf | ScFor, ScFor | ScSwitch, ScSwitch => true
  | _, _ => false
  end.

Record fdef := mkFdef { f_name : bytes; f_rets : list vtype; f_params : list var; f_public : bool }.

Record ctx := mkCtx {
  c_imports : list (bytes * bytes);      (* alias -> file prefix *)
  c_vars : list (bytes * var);
  c_funcs : list (bytes * fdef);
  c_scopes : list scope                  (* innermost last *)
}.

Definition new_ctx : ctx := mkCtx [] [] [] [].

Definition current_scope (c : ctx) : scope := last (c_scopes c) ScProgram.
Definition is_global (c : ctx) : bool := scope_eqb (current_scope c) ScProgram.
Definition find_scope (c : ctx) (s : scope) : bool := existsb (scope_eqb s) (c_scopes c).
Definition push_scope (c : ctx) (s : scope) : ctx :=
  mkCtx (c_imports c) (c_vars c) (c_funcs c) (c_scopes c ++ [s]).

(* buildPrefixedName(prefix, name) *)
Definition prefixed (prefix name : bytes) : bytes :=
  match prefix with
  | [] => name
  | _ => let p := prefix ++ [95] in if has_prefix p name then name else p ++ name
  end.

(* context.buildPrefixedName(name, prefix, global, checkExistence); names are identifiers, never blank *)
Definition ctx_prefixed (c : ctx) (name prefix : bytes) (global check : bool) : option bytes :=
  match name with
  | [] => None
  | _ =>
      match prefix with
      | [] => Some name
      | _ =>
          if global then
            match aget prefix (c_imports c) with
            | Some h => Some (prefixed h name)
            | None => if check then None else Some name
            end
          else Some name
      end
  end.

Definition add_import (c : ctx) (alias h : bytes) : ctx :=
  mkCtx (aset alias h (c_imports c)) (c_vars c) (c_funcs c) (c_scopes c).

Definition add_var (c : ctx) (prefix : bytes) (global : bool) (v : var) : option ctx :=
  match ctx_prefixed c (v_name v) prefix global false with
  | Some k => Some (mkCtx (c_imports c) (aset k v (c_vars c)) (c_funcs c) (c_scopes c))
  | None => None
  end.

Fixpoint add_vars (c : ctx) (prefix : bytes) (global : bool) (vs : list var) : option ctx :=
  match vs with
  | [] => Some c
  | v :: r => match add_var c prefix global v with Some c' => add_vars c' prefix global r | None => None end
  end.

Definition add_func (c : ctx) (prefix : bytes) (global : bool) (f : fdef) : option ctx :=
  match ctx_prefixed c (f_name f) prefix global false with
  | Some k => Some (mkCtx (c_imports c) (c_vars c) (aset k f (c_funcs c)) (c_scopes c))
  | None => None
  end.

(* context.findVariable, with the fallback to the file's own globals inside functions and blocks *)
Definition find_var (c : ctx) (name prefix : bytes) (global : bool) : option var :=
  match ctx_prefixed c name prefix global true with
  | None => None
  | Some k =>
      match aget k (c_vars c) with
      | Some v => Some v
      | None =>
          if global then None
          else match ctx_prefixed c name prefix true true with
               | Some k2 => aget k2 (c_vars c)
               | None => None
               end
      end
  end.

Definition find_func (c : ctx) (name prefix : bytes) : option fdef :=
  match ctx_prefixed c name prefix true true with
  | Some k => aget k (c_funcs c)
  | None => None
  end.

(* ---------- small pieces ---------- *)

Definition is_public (name : bytes) : bool := match name with c :: _ => is_upper c | [] => false end.

(* typeMapping: bool, int, string, error (= string) *)
Definition data_type_of (v : bytes) : option dtype :=
  if beq v (bs "bool") then Some DBool
  else if beq v (bs "int") then Some DInt
  else if beq v (bs "string") then Some DString
  else if beq v (bs "error") then Some DString
  else None.

Definition binop_of (v : bytes) : option binop :=
  if beq v [42] then Some OpMul else if beq v [47] then Some OpDiv else if beq v [37] then Some OpMod
  else if beq v [43] then Some OpAdd else if beq v [45] then Some OpSub else None.

Definition cmpop_of (v : bytes) : option cmpop :=
  if beq v (bs "==") then Some CEq else if beq v (bs "!=") then Some CNe
  else if beq v (bs "<") then Some CLt else if beq v (bs "<=") then Some CLe
  else if beq v (bs ">") then Some CGt else if beq v (bs ">=") then Some CGe else None.

(* allowedBinaryOperators / allowedCompareOperators *)
Definition binop_allowed (t : vtype) (op : binop) : bool :=
  if is_slice t then false
  else match dt t with
       | DInt => true
       | DString => match op with OpAdd => true | _ => false end
       | _ => false
       end.

Definition cmpop_allowed (t : vtype) (op : cmpop) : bool :=
  if is_slice t then false
  else match dt t with
       | DBool => match op with CEq | CNe => true | _ => false end
       | DInt | DString => true
       | _ => false
       end.

(* strconv.Atoi on a NUMBER_LITERAL value: optional minus, digits; fractions and values outside int64 fail *)
Fixpoint digits_val (s : bytes) (acc : N) : option N :=
  match s with
  | [] => Some acc
  | c :: r => if is_digit c then digits_val r (acc * 10 + (c - 48)) else None
  end.

Definition atoi (s : bytes) : option Z :=
  let neg := hd_is 45 s in
  let ds := if neg then tl s else s in
  match ds with
  | [] => None
  | _ =>
      match digits_val ds 0 with
      | Some n =>
          let z := if neg then (- Z.of_N n)%Z else Z.of_N n in
          if ((-9223372036854775808 <=? z) && (z <=? 9223372036854775807))%Z then Some z else None
      | None => None
      end
  end.

(* defaultVarValue *)
Definition default_value (t : vtype) : option expr :=
  if is_slice t then Some (ESliceInst (dt t) [])
  else match dt t with
       | DBool => Some (EBool false)
       | DInt => Some (EInt 0)
       | DString => Some (EStr [])
       | _ => None
       end.

(* incrementDecrementStatement *)
Definition incdec (v : var) (inc : bool) : stmt :=
  SAssign [v] [EBinary (EVar v) (if inc then OpAdd else OpSub) (EInt 1)].

(* p.findAllowed(search, allowed...) from the current position *)
Fixpoint find_allowed (search : toktype) (allowed : list toktype) (ts : list ptoken) : bool :=
  match ts with
  | [] => false
  | t :: r =>
      if tok_is t search then true
      else if existsb (tt_eqb (fst t)) allowed then find_allowed search allowed r
      else false
  end.

(* p.findBefore(search, before...) *)
Fixpoint find_before (search : toktype) (before : list toktype) (ts : list ptoken) : bool :=
  match ts with
  | [] => false
  | t :: r =>
      if tok_is t search then true
      else if existsb (tt_eqb (fst t)) before then false
      else find_before search before r
  end.

Definition is_short_var_init : P bool :=
  fun s => Ok (find_allowed SHORT_INIT_OPERATOR [IDENTIFIER; COMMA] (toks s)) s.

(* evaluateValueType *)
Definition p_value_type : P vtype :=
  t <- peek ;;
  sl <- (if tok_is t OPENING_SQUARE_BRACKET then eat ;;; expect CLOSING_SQUARE_BRACKET ;;; ret true else ret false) ;;
  t2 <- expect DATA_TYPE ;;
  match data_type_of (snd t2) with
  | Some d => ret (mkVT d sl)
  | None => fail
  end.

(* evaluateVarNames: one or more identifiers separated by commas *)
Fixpoint p_var_names (n : nat) : P (list bytes) :=
  match n with
  | O => nofuel
  | S n' =>
      t <- expect IDENTIFIER ;;
      nx <- peek ;;
      if tok_is nx COMMA then eat ;;; r <- p_var_names n' ;; ret (snd t :: r)
      else ret [snd t]
  end.

(* evaluatedValues.isMultiReturnCall *)
Definition multi_return_call (vals : list expr) : option (list vtype) :=
  match vals with
  | [e] => match call_rets e with
           | Some rets => if (1 <? length rets)%nat then Some rets else None
           | None => None
           end
  | _ => None
  end.

Definition value_types (vals : list expr) : list vtype :=
  match multi_return_call vals with
  | Some rets => rets
  | None => map type_of vals
  end.

(* record a call edge currFunc -> name in usedFuncs *)
Definition note_call (name : bytes) : P unit :=
  cf <- get_curr_func ;;
  u <- get_used ;;
  let l := match aget cf u with Some l => l | None => [] end in
  set_used (aset cf (if mem name l then l else l ++ [name]) u).

(* ---------- expressions ---------- *)

Section Expr.
  Variable prefix : bytes.                 (* p.prefix of the file being parsed *)

  (* comma separated expressions up to the closing token; mirrors the loops of
     evaluateBuiltInFunction / evaluateSliceInstantiation (the closing token is not eaten) *)
  Fixpoint p_list_until (pe : P expr) (close : toktype) (check : expr -> bool) (n : nat) : P (list expr) :=
    match n with
    | O => nofuel
    | S n' =>
        e <- pe ;;
        guard (check e) ;;;
        nx <- peek ;;
        if tok_is nx COMMA then eat ;;; r <- p_list_until pe close check n' ;; ret (e :: r)
        else if tok_is nx close then ret [e]
        else fail
    end.

  (* evaluateBuiltInFunction(tokenType, min, max): keyword "(" args ")" with arity limits;
     arguments must have a value *)
  Definition p_builtin_args (pe : P expr) (kw : toktype) (minA : nat) (maxA : option nat) (n : nat) : P (list expr) :=
    expect kw ;;;
    expect OPENING_ROUND_BRACKET ;;;
    nx <- peek ;;
    args <- (if tok_is nx CLOSING_ROUND_BRACKET then ret []
             else p_list_until pe CLOSING_ROUND_BRACKET (fun e => negb (dtype_eqb (dt (type_of e)) DUnknown)) n) ;;
    guard (minA <=? length args)%nat ;;;
    guard (match maxA with Some m => (length args <=? m)%nat | None => true end) ;;;
    expect CLOSING_ROUND_BRACKET ;;;
    ret args.

  (* evaluateArguments: "(" args ")" checked against params (None = no signature, for programs: any value) *)
  Fixpoint p_args_loop (pe : P expr) (params : option (list var)) (seen : nat) (n : nat) : P (list expr) :=
    match n with
    | O => nofuel
    | S n' =>
        e <- pe ;;
        guard (match params with
               | None => negb (dtype_eqb (dt (type_of e)) DUnknown)
               | Some ps => match nth_error ps seen with
                            | Some p => vtype_eqb (v_type p) (type_of e)
                            | None => false
                            end
               end) ;;;
        nx2 <- peek ;;
        if tok_is nx2 COMMA then eat ;;; r <- p_args_loop pe params (S seen) n' ;; ret (e :: r)
        else if tok_is nx2 CLOSING_ROUND_BRACKET then ret [e]
        else fail
    end.

  Definition p_arguments (pe : P expr) (params : option (list var)) (n : nat) : P (list expr) :=
    expect OPENING_ROUND_BRACKET ;;;
    nx <- peek ;;
    args <- (if tok_is nx CLOSING_ROUND_BRACKET then ret [] else p_args_loop pe params 0 n) ;;
    guard (match params with Some ps => Nat.eqb (length args) (length ps) | None => true end) ;;;
    expect CLOSING_ROUND_BRACKET ;;;
    ret args.

  (* evaluateVarEvaluation *)
  Definition p_var_eval (c : ctx) : P expr :=
    t <- expect IDENTIFIER ;;
    match find_var c (snd t) prefix (is_global c) with
    | Some v => ret (EVar v)
    | None => fail
    end.

  (* evaluateFunctionCall *)
  Definition p_func_call (pe : P expr) (c : ctx) (n : nat) : P expr :=
    t0 <- eat ;;
    d <- peek ;;
    at_ <- (if tok_is d DOT then eat ;;; t1 <- eat ;; ret (snd t0, t1) else ret ([], t0)) ;;
    let '(alias, t) := at_ in
    guard (tok_is t IDENTIFIER) ;;;
    let pre := match alias with [] => prefix | _ => alias end in
    match find_func c (snd t) pre with
    | None => fail
    | Some f =>
        args <- p_arguments pe (Some (f_params f)) n ;;
        note_call (f_name f) ;;;
        ret (ECall (f_name f) (f_rets f) args)
    end.

  (* evaluateAppCall: @name(args) [| @name(args)]... *)
  Fixpoint p_app_call (pe : P expr) (n : nat) : P (list (bytes * list expr)) :=
    match n with
    | O => nofuel
    | S n' =>
        expect AT ;;;
        t <- eat ;;
        guard (tok_is t IDENTIFIER || tok_is t STRING_LITERAL) ;;;
        args <- p_arguments pe None n' ;;
        nx <- peek ;;
        if tok_is nx PIPE then eat ;;; r <- p_app_call pe n' ;; ret ((snd t, args) :: r)
        else ret [(snd t, args)]
    end.

  (* evaluateSliceInstantiation: []T{ e, ... } *)
  Definition p_slice_inst (pe : P expr) (n : nat) : P expr :=
    vt <- p_value_type ;;
    guard (is_slice vt) ;;;
    expect OPENING_CURLY_BRACKET ;;;
    nx <- peek ;;
    vals <- (if tok_is nx CLOSING_CURLY_BRACKET then ret []
             else p_list_until pe CLOSING_CURLY_BRACKET (fun e => vtype_eqb (type_of e) (T (dt vt))) n) ;;
    expect CLOSING_CURLY_BRACKET ;;;
    ret (ESliceInst (dt vt) vals).

  (* evaluateSubscript: x[i], x[a:b], x[:b], x[a:], x[:] on a variable *)
  Definition p_subscript (pe : P expr) (c : ctx) : P expr :=
    vt <- peek ;;
    value <- (if tok_is vt IDENTIFIER then p_var_eval c
              else if tok_is vt STRING_LITERAL then pe
              else fail) ;;
    let ty := type_of value in
    let sl := is_slice ty in
    guard (sl || dtype_eqb (dt ty) DString) ;;;
    expect OPENING_SQUARE_BRACKET ;;;
    nx <- peek ;;
    sr <- (if tok_is nx COLON then eat ;;; ret (EInt 0, true)
           else e <- pe ;; ret (e, false)) ;;
    let '(start, range0) := sr in
    guard (is_int (type_of start)) ;;;
    nx2 <- peek ;;
    range <- (if tok_is nx2 COLON then (if range0 then fail else eat ;;; ret true) else ret range0) ;;
    guard (negb (range && sl)) ;;;
    nx3 <- peek ;;
    stop <- (if tok_is nx3 CLOSING_SQUARE_BRACKET then
               eat ;;;
               ret (if range then EBinary (ELen value) OpSub (EInt 1) else start)
             else
               e <- pe ;;
               expect CLOSING_SQUARE_BRACKET ;;;
               ret (EBinary e OpSub (EInt 1))) ;;
    guard (is_int (type_of stop)) ;;;
    if sl then ret (ESliceEval value start (dt ty))
    else ret (ESubscript value start (if range then Some stop else None)).

  (* evaluateSingleExpression, given the parser for full expressions (smaller fuel) *)
  Definition p_single (pe : P expr) (c : ctx) (n : nat) : P expr :=
    t <- peek ;;
    match fst t with
    | BOOL_LITERAL => eat ;;; ret (EBool (beq (snd t) (bs "true")))
    | NUMBER_LITERAL => eat ;;; (match atoi (snd t) with Some z => ret (EInt z) | None => fail end)
    | NIL_LITERAL => eat ;;; ret (EStr [])
    | STRING_LITERAL => eat ;;; ret (EStr (snd t))
    | OPENING_ROUND_BRACKET => eat ;;; e <- pe ;; expect CLOSING_ROUND_BRACKET ;;; ret (EGroup e)
    | OPENING_SQUARE_BRACKET => p_slice_inst pe n
    | INPUT =>
        args <- p_builtin_args pe INPUT 0 (Some 1%nat) n ;;
        (match args with
         | [] => ret (EInput None)
         | e :: _ => guard (is_string (type_of e)) ;;; ret (EInput (Some e))
         end)
    | READ =>
        args <- p_builtin_args pe READ 1 (Some 1%nat) n ;;
        (match args with e :: _ => guard (is_string (type_of e)) ;;; ret (ERead e) | [] => fail end)
    | COPY =>
        args <- p_builtin_args pe COPY 2 (Some 2%nat) n ;;
        (match args with
         | [EVar d; src] =>
             guard (is_slice (v_type d)) ;;;
             guard (is_slice (type_of src)) ;;;
             guard (vtype_eqb (v_type d) (type_of src)) ;;;
             ret (ECopy d src)
         | _ => fail
         end)
    | ITOA =>
        args <- p_builtin_args pe ITOA 1 (Some 1%nat) n ;;
        (match args with e :: _ => guard (is_int (type_of e)) ;;; ret (EItoa e) | [] => fail end)
    | EXISTS =>
        args <- p_builtin_args pe EXISTS 1 (Some 1%nat) n ;;
        (match args with e :: _ => guard (is_string (type_of e)) ;;; ret (EExists e) | [] => fail end)
    | LEN =>
        args <- p_builtin_args pe LEN 1 (Some 1%nat) n ;;
        (match args with
         | e :: _ => guard (is_slice (type_of e) || is_string (type_of e)) ;;; ret (ELen e)
         | [] => fail
         end)
    | AT => calls <- p_app_call pe n ;; ret (EApp calls)
    | IDENTIFIER =>
        nx <- peek_at 1 ;;
        (match fst nx with
         | OPENING_ROUND_BRACKET | DOT => p_func_call pe c n
         | OPENING_SQUARE_BRACKET => p_subscript pe c
         | _ => p_var_eval c
         end)
    | _ => fail
    end.

  (* evaluateUnaryOperation *)
  Definition p_unary (pe : P expr) (c : ctx) (n : nat) : P expr :=
    t <- peek ;;
    if tok_is t UNARY_OPERATOR && beq (snd t) [33] then
      eat ;;; e <- p_single pe c n ;; guard (is_bool (type_of e)) ;;; ret (EUnary e)
    else p_single pe c n.

  (* evaluateBinaryOperation for one precedence level *)
  Fixpoint p_binary_loop (higher : P expr) (ops : list binop) (left : expr) (n : nat) : P expr :=
    match n with
    | O => nofuel
    | S n' =>
        t <- peek ;;
        match (if tok_is t BINARY_OPERATOR then binop_of (snd t) else None) with
        | Some op =>
            if existsb (fun o => match o, op with
                                 | OpMul, OpMul | OpDiv, OpDiv | OpMod, OpMod | OpAdd, OpAdd | OpSub, OpSub => true
                                 | _, _ => false end) ops then
              eat ;;;
              right <- higher ;;
              guard (vtype_eqb (type_of left) (type_of right)) ;;;
              guard (binop_allowed (type_of left) op) ;;;
              p_binary_loop higher ops (EBinary left op right) n'
            else ret left
        | None => ret left
        end
    end.

  Definition p_binary (higher : P expr) (ops : list binop) (n : nat) : P expr :=
    l <- higher ;; p_binary_loop higher ops l n.

  (* evaluateComparison (left associative) *)
  Fixpoint p_compare_loop (higher : P expr) (left : expr) (n : nat) : P expr :=
    match n with
    | O => nofuel
    | S n' =>
        t <- peek ;;
        if tok_is t COMPARE_OPERATOR then
          eat ;;;
          right <- higher ;;
          guard (vtype_eqb (type_of left) (type_of right)) ;;;
          match cmpop_of (snd t) with
          | Some op =>
              guard (cmpop_allowed (type_of left) op) ;;;
              p_compare_loop higher (ECompare left op right) n'
          | None => fail
          end
        else ret left
    end.

  (* evaluateLogicalOperation *)
  Fixpoint p_logical_loop (higher : P expr) (op : logop) (opv : bytes) (left : expr) (n : nat) : P expr :=
    match n with
    | O => nofuel
    | S n' =>
        t <- peek ;;
        if tok_is t LOGICAL_OPERATOR && beq (snd t) opv then
          guard (is_bool (type_of left)) ;;;
          eat ;;;
          right <- higher ;;
          guard (is_bool (type_of right)) ;;;
          p_logical_loop higher op opv (ELogical left op right) n'
        else ret left
    end.

  (* evaluateExpression: ||, &&, comparison, additive, multiplicative, !, primary *)
  Fixpoint p_expr (c : ctx) (fuel : nat) : P expr :=
    match fuel with
    | O => nofuel
    | S f =>
        let pe := p_expr c f in
        let unary := p_unary pe c f in
        let mul := p_binary unary [OpMul; OpDiv; OpMod] f in
        let add := p_binary mul [OpAdd; OpSub] f in
        let cmp := (l <- add ;; p_compare_loop add l f) in
        let land := (l <- cmp ;; p_logical_loop cmp LAnd (bs "&&") l f) in
        l <- land ;; p_logical_loop land LOr (bs "||") l f
    end.

  (* evaluateValues: e, e, ... ; a call without return value is an error; a multi-value call must stand alone *)
  Fixpoint p_values (c : ctx) (fuel : nat) (n : nat) : P (list expr) :=
    match n with
    | O => nofuel
    | S n' =>
        e <- p_expr c fuel ;;
        let nrets := match e with ECall _ rets _ => Some (length rets) | _ => None end in
        guard (match nrets with Some O => false | _ => true end) ;;;
        nx <- peek ;;
        if tok_is nx COMMA then
          eat ;;;
          guard (match nrets with Some k => (k <=? 1)%nat | None => true end) ;;;
          r <- p_values c fuel n' ;; ret (e :: r)
        else ret [e]
    end.
End Expr.

(* ---------- statements ---------- *)

Definition stmt_is_return (s : stmt) : option (list expr) := match s with SReturn vs => Some vs | _ => None end.

(* the callback evaluateFunctionDefinition passes to evaluateBlock *)
Definition func_callback (rets : list vtype) (stmts : list stmt) (is_last : bool) : bool :=
  let lst := last (map Some stmts) None in
  match rets with
  | [] => match lst with Some (SReturn _) => false | _ => true end
  | _ =>
      if is_last then
        match lst with
        | Some (SReturn vals) =>
            Nat.eqb (length vals) (length rets)
            && forallb (fun p => vtype_eqb (type_of (fst p)) (snd p)) (combine vals rets)
        | _ => false
        end
      else true
  end.

Definition no_callback (stmts : list stmt) (is_last : bool) : bool := true.

Fixpoint vtypes_eqb (a b : list vtype) : bool :=
  match a, b with
  | [], [] => true
  | x :: a', y :: b' => vtype_eqb x y && vtypes_eqb a' b'
  | _, _ => false
  end.

Section Stmt.
  Variable prefix : bytes.

  Definition lookup_var (c : ctx) (name : bytes) : option var := find_var c name prefix (is_global c).

  (* evaluateVarDefinition *)
  Definition p_var_definition (c : ctx) (fuel : nat) : P stmt :=
    short <- is_short_var_init ;;
    (if short then ret tt else expect VAR_DEFINITION ;;; ret tt) ;;;
    names <- p_var_names fuel ;;
    let defined := map (fun n => match lookup_var c n with Some _ => true | None => false end) names in
    guard (match names with
           | [_] => negb (existsb (fun b => b) defined)
           | _ => (short || negb (existsb (fun b => b) defined)) && negb (forallb (fun b => b) defined)
           end) ;;;
    spec <- (if short then expect SHORT_INIT_OPERATOR ;;; ret (T DUnknown)
             else
               nx <- peek ;;
               sp <- (if tok_is nx DATA_TYPE || tok_is nx OPENING_SQUARE_BRACKET then p_value_type else ret (T DUnknown)) ;;
               nx2 <- peek ;;
               (if tok_is nx2 ASSIGN_OPERATOR then eat ;;; ret sp
                else guard (negb (dtype_eqb (dt sp) DUnknown)) ;;; ret sp)) ;;
    nx <- peek ;;
    let global := is_global c in
    guard (forallb (fun n => match lookup_var c n with
                             | Some v => dtype_eqb (dt spec) DUnknown || vtype_eqb spec (v_type v)
                             | None => true
                             end) names) ;;;
    let vars := map (fun n => mkVar (if global then prefixed prefix n else n) spec global (is_public n)) names in
    if tok_is nx NEWLINE || tok_is nx EOF then
      match fold_right (fun v acc => match acc, default_value (v_type v) with
                                     | Some l, Some d => Some (d :: l)
                                     | _, _ => None end) (Some []) vars with
      | Some defaults => ret (SVarDef vars defaults)
      | None => fail
      end
    else
      vals <- p_values prefix c fuel fuel ;;
      let vts := value_types vals in
      guard (Nat.eqb (length vts) (length vars)) ;;;
      guard (dtype_eqb (dt spec) DUnknown || forallb (fun t => vtype_eqb t spec) vts) ;;;
      let vars' := map (fun p => let '(v, t) := p in
                                 if dtype_eqb (dt (v_type v)) DUnknown
                                 then mkVar (v_name v) t (v_global v) (v_public v) else v) (combine vars vts) in
      guard (forallb (fun p => let '(v, t) := p in
                               dtype_eqb (dt (v_type v)) DUnknown || vtype_eqb (v_type v) t) (combine vars vts)) ;;;
      match multi_return_call vals, vals with
      | Some _, [call] => ret (SVarDefCall vars' call)
      | _, _ => ret (SVarDef vars' vals)
      end.

  (* evaluateCompoundAssignment *)
  Definition p_compound_assignment (c : ctx) (fuel : nat) : P stmt :=
    names <- p_var_names fuel ;;
    match names with
    | [name] =>
        at_ <- expect COMPOUND_ASSIGN_OPERATOR ;;
        vals <- p_values prefix c fuel fuel ;;
        let vts := value_types vals in
        match vts, vals, lookup_var c name with
        | [vt], v0 :: _, Some v =>
            guard (vtype_eqb vt (v_type v)) ;;;
            match binop_of (firstn 1 (snd at_)) with
            | Some op =>
                guard (binop_allowed vt op) ;;;
                ret (SAssign [v] [EBinary (EVar v) op v0])
            | None => fail
            end
        | _, _, _ => fail
        end
    | _ => fail
    end.

  (* evaluateVarAssignment *)
  Definition p_var_assignment (c : ctx) (fuel : nat) : P stmt :=
    names <- p_var_names fuel ;;
    expect ASSIGN_OPERATOR ;;;
    vals <- p_values prefix c fuel fuel ;;
    let vts := value_types vals in
    guard (Nat.eqb (length names) (length vts)) ;;;
    match fold_right (fun p acc => let '(n, t) := p in
                                   match acc, lookup_var c n with
                                   | Some l, Some v => if vtype_eqb t (v_type v) then Some (v :: l) else None
                                   | _, _ => None
                                   end) (Some []) (combine names vts) with
    | Some vars =>
        match multi_return_call vals, vals with
        | Some _, [call] => ret (SAssignCall vars call)
        | _, _ => ret (SAssign vars vals)
        end
    | None => fail
    end.

  (* evaluateSliceAssignment *)
  Definition p_slice_assignment (c : ctx) (fuel : nat) : P stmt :=
    t <- expect IDENTIFIER ;;
    match lookup_var c (snd t) with
    | Some v =>
        guard (is_slice (v_type v)) ;;;
        expect OPENING_SQUARE_BRACKET ;;;
        idx <- p_expr prefix c fuel ;;
        guard (is_int (type_of idx)) ;;;
        expect CLOSING_SQUARE_BRACKET ;;;
        expect ASSIGN_OPERATOR ;;;
        val <- p_expr prefix c fuel ;;
        guard (vtype_eqb (T (dt (v_type v))) (type_of val)) ;;;
        ret (SSliceAssign v idx val)
    | None => fail
    end.

  (* evaluateIncrementDecrement *)
  Definition p_incdec (c : ctx) : P stmt :=
    t <- expect IDENTIFIER ;;
    match lookup_var c (snd t) with
    | Some v =>
        guard (is_int (v_type v)) ;;;
        o <- eat ;;
        if tok_is o INCREMENT_OPERATOR then ret (incdec v true)
        else if tok_is o DECREMENT_OPERATOR then ret (incdec v false)
        else fail
    | None => fail
    end.

  (* evaluateParams *)
  Fixpoint p_params (c : ctx) (acc : list var) (n : nat) : P (list var) :=
    match n with
    | O => nofuel
    | S n' =>
        t <- peek ;;
        if tok_is t CLOSING_ROUND_BRACKET then ret acc
        else
          expect IDENTIFIER ;;;
          guard (match find_var c (snd t) prefix false with Some _ => false | None => true end) ;;;
          guard (negb (existsb (fun p => beq (v_name p) (snd t)) acc)) ;;;
          vt <- p_value_type ;;
          nx <- peek ;;
          guard (tok_is nx COMMA || tok_is nx CLOSING_ROUND_BRACKET) ;;;
          (if tok_is nx COMMA then eat ;;; ret tt else ret tt) ;;;
          p_params c (acc ++ [mkVar (snd t) vt false false]) n'
    end.

  (* return types: T | (T, T, ...) | nothing *)
  Fixpoint p_return_types (multiple : bool) (acc : list vtype) (n : nat) : P (list vtype) :=
    match n with
    | O => nofuel
    | S n' =>
        t <- peek ;;
        acc' <- (if tok_is t DATA_TYPE || tok_is t OPENING_SQUARE_BRACKET
                 then vt <- p_value_type ;; ret (acc ++ [vt]) else ret acc) ;;
        if multiple then
          nt <- eat ;;
          if tok_is nt CLOSING_ROUND_BRACKET then ret acc'
          else if tok_is nt COMMA then p_return_types multiple acc' n'
          else fail
        else ret acc'
    end.

  Definition stmt_defs (s : stmt) : list var :=
    match s with SVarDef vs _ | SVarDefCall vs _ => vs | _ => [] end.

  (* the mutually recursive part: statements and blocks *)
  Fixpoint p_stmt (c : ctx) (fuel : nat) : P stmt :=
    match fuel with
    | O => nofuel
    | S f =>
        let block := fun (cb : list stmt -> bool -> bool) (c' : ctx) (sc : scope) =>
          expect OPENING_CURLY_BRACKET ;;;
          expect NEWLINE ;;;
          b <- p_block_content [CLOSING_CURLY_BRACKET] cb c' sc f ;;
          expect CLOSING_CURLY_BRACKET ;;;
          ret b in
        t <- peek ;;
        match fst t with
        | VAR_DEFINITION => p_var_definition c f
        | FUNCTION_DEFINITION =>
            eat ;;;
            guard (is_global c) ;;;
            nt <- expect IDENTIFIER ;;
            let name := snd nt in
            guard (match find_func c name prefix with Some _ => false | None => true end) ;;;
            let c' := mkCtx (c_imports c) (filter (fun kv => v_global (snd kv)) (c_vars c)) (c_funcs c) (c_scopes c) in
            ob <- peek ;;
            params <- (if tok_is ob OPENING_ROUND_BRACKET
                       then eat ;;; ps <- p_params c' [] f ;; expect CLOSING_ROUND_BRACKET ;;; ret ps
                       else ret []) ;;
            rt <- peek ;;
            rets <- (if tok_is rt OPENING_ROUND_BRACKET then eat ;;; p_return_types true [] f
                     else p_return_types false [] f) ;;
            match add_vars c' prefix false params with
            | None => fail
            | Some c'' =>
                let pname := prefixed prefix name in
                set_curr_func pname ;;;
                body <- block (func_callback rets) c'' ScFunction ;;
                set_curr_func [] ;;;
                ret (SFunc pname rets params body (is_public name))
            end
        | RETURN =>
            eat ;;;
            guard (find_scope c ScFunction) ;;;
            vals <- p_values prefix c f f ;;
            ret (SReturn vals)
        | IF =>
            eat ;;;
            cond <- p_expr prefix c f ;;
            guard (is_bool (type_of cond)) ;;;
            body <- block no_callback c ScIf ;;
            (fix else_loop (branches : list (expr * list stmt)) (els : list stmt) (n : nat) : P stmt :=
               match n with
               | O => nofuel
               | S n' =>
                   nx <- peek ;;
                   if tok_is nx ELSE then
                     eat ;;;
                     nx2 <- peek ;;
                     if tok_is nx2 IF then
                       eat ;;;
                       cnd <- p_expr prefix c f ;;
                       guard (is_bool (type_of cnd)) ;;;
                       b <- block no_callback c ScIf ;;
                       else_loop (branches ++ [(cnd, b)]) els n'
                     else
                       b <- block no_callback c ScIf ;;
                       else_loop branches b n'
                   else ret (SIf branches els)
               end) [(cond, body)] [] f
        | SWITCH =>
            eat ;;;
            et <- peek ;;
            sw <- (if tok_is et OPENING_CURLY_BRACKET then ret (EBool true) else p_expr prefix c f) ;;
            guard (negb (is_slice (type_of sw))) ;;;
            expect OPENING_CURLY_BRACKET ;;;
            expect NEWLINE ;;;
            (fix case_loop (branches : list (expr * list stmt)) (els : option (list stmt)) (n : nat) : P stmt :=
               match n with
               | O => nofuel
               | S n' =>
                   nx <- peek ;;
                   if tok_is nx CLOSING_CURLY_BRACKET then
                     eat ;;;
                     ret (SIf (match branches with [] => [(EBool false, [])] | _ => branches end)
                              (match els with Some b => b | None => [] end))
                   else if tok_is nx CASE then
                     eat ;;;
                     ce <- p_expr prefix c f ;;
                     expect COLON ;;;
                     b <- p_block_content [CASE; DEFAULT; CLOSING_CURLY_BRACKET] no_callback c ScSwitch f ;;
                     guard (vtype_eqb (type_of sw) (type_of ce)) ;;;
                     case_loop (branches ++ [(ECompare sw CEq ce, b)]) els n'
                   else if tok_is nx DEFAULT then
                     eat ;;;
                     expect COLON ;;;
                     b <- p_block_content [CASE; DEFAULT; CLOSING_CURLY_BRACKET] no_callback c ScSwitch f ;;
                     match els with
                     | None => case_loop branches (Some b) n'
                     | Some _ => fail
                     end
                   else fail
               end) [] None f
        | FOR =>
            eat ;;;
            nx <- peek ;;
            nx1 <- peek_at 1 ;;
            nx2 <- peek_at 2 ;;
            if tok_is nx IDENTIFIER && (tok_is nx1 COMMA || (tok_is nx1 SHORT_INIT_OPERATOR && tok_is nx2 RANGE)) then
              eat ;;;
              guard (match lookup_var c (snd nx) with Some _ => false | None => true end) ;;;
              let iname := snd nx in
              n2 <- peek ;;
              vname <- (if tok_is n2 COMMA then
                          eat ;;; vt <- expect IDENTIFIER ;;
                          guard (match lookup_var c (snd vt) with Some _ => false | None => true end) ;;;
                          ret (snd vt)
                        else ret []) ;;
              expect SHORT_INIT_OPERATOR ;;;
              expect RANGE ;;;
              it <- p_expr prefix c f ;;
              let ity := type_of it in
              let ivar := mkVar iname (T DInt) false false in
              match (if is_slice ity then Some (ESliceEval it (EVar ivar) (dt ity))
                     else if is_string ity then Some (ESubscript it (EVar ivar) None)
                     else None) with
              | None => fail
              | Some elem =>
                  match add_var c prefix false ivar with
                  | None => fail
                  | Some c1 =>
                      let vvar := mkVar vname (T (dt ity)) false false in
                      match (match vname with [] => Some c1 | _ => add_var c1 prefix false vvar end) with
                      | None => fail
                      | Some c2 =>
                          body <- block no_callback c2 ScFor ;;
                          ret (SFor (Some (SAssign [ivar] [EInt 0]))
                                    (ECompare (EVar ivar) CLt (ELen it))
                                    (Some (incdec ivar true))
                                    ((match vname with [] => [] | _ => [SAssign [vvar] [elem]] end) ++ body))
                      end
                  end
              end
            else if tok_is nx OPENING_CURLY_BRACKET then
              body <- block no_callback c ScFor ;;
              ret (SFor None (EBool true) None body)
            else
              three <- (fun s => Ok (find_before SEMICOLON [OPENING_CURLY_BRACKET] (toks s)) s) ;;
              if three then
                i0 <- peek ;;
                ic <- (if tok_is i0 SEMICOLON then ret (None, c)
                       else
                         st <- p_stmt c f ;;
                         match st with
                         | SVarDef vs _ | SVarDefCall vs _ =>
                             match add_vars c prefix false vs with
                             | Some c' => ret (Some st, c')
                             | None => fail
                             end
                         | SAssign _ _ => ret (Some st, c)
                         | _ => fail
                         end) ;;
                let '(init, c1) := ic in
                expect SEMICOLON ;;;
                c0 <- peek ;;
                cond <- (if tok_is c0 SEMICOLON then ret (EBool true) else p_expr prefix c1 f) ;;
                expect SEMICOLON ;;;
                i1 <- peek ;;
                incr <- (if tok_is i1 OPENING_CURLY_BRACKET then ret None
                         else st <- p_stmt c1 f ;;
                              match st with SAssign _ _ => ret (Some st) | _ => fail end) ;;
                guard (is_bool (type_of cond)) ;;;
                body <- block no_callback c1 ScFor ;;
                ret (SFor init cond incr body)
              else
                cond <- p_expr prefix c f ;;
                guard (is_bool (type_of cond)) ;;;
                body <- block no_callback c ScFor ;;
                ret (SFor None cond None body)
        | BREAK => eat ;;; guard (find_scope c ScFor) ;;; ret SBreak
        | CONTINUE => eat ;;; guard (find_scope c ScFor) ;;; ret SContinue
        | PRINT => args <- p_builtin_args (p_expr prefix c f) PRINT 0 None f ;; ret (SPrint args)
        | WRITE =>
            args <- p_builtin_args (p_expr prefix c f) WRITE 2 (Some 3%nat) f ;;
            (match args with
             | pth :: dat :: rest =>
                 guard (is_string (type_of pth)) ;;;
                 guard (is_string (type_of dat)) ;;;
                 (match rest with
                  | ap :: _ => guard (is_bool (type_of ap)) ;;; ret (SWrite pth dat ap)
                  | [] => ret (SWrite pth dat (EBool false))
                  end)
             | _ => fail
             end)
        | PANIC =>
            args <- p_builtin_args (p_expr prefix c f) PANIC 1 (Some 1%nat) f ;;
            (match args with e :: _ => ret (SPanic e) | [] => fail end)
        | _ =>
            short <- is_short_var_init ;;
            if short then p_var_definition c f
            else
              nx1 <- peek_at 1 ;;
              let as_expr :=
                e <- p_expr prefix c f ;;
                match e with
                | ECall _ _ _ | EApp _ | ECopy _ _ | EInput _ | ERead _ => ret (SExpr e)
                | _ => fail
                end in
              if tok_is t IDENTIFIER then
                match fst nx1 with
                | INCREMENT_OPERATOR | DECREMENT_OPERATOR => p_incdec c
                | COMPOUND_ASSIGN_OPERATOR => p_compound_assignment c f
                | ASSIGN_OPERATOR | COMMA => p_var_assignment c f
                | _ =>
                    match lookup_var c (snd t) with
                    | Some v => if is_slice (v_type v) then p_slice_assignment c f else as_expr
                    | None => as_expr
                    end
                end
              else as_expr
        end
    end

  (* evaluateBlockContent *)
  with p_block_content (terms : list toktype) (cb : list stmt -> bool -> bool) (c0 : ctx) (sc : scope) (fuel : nat)
       : P (list stmt) :=
    match fuel with
    | O => nofuel
    | S f =>
        (fix loop (c : ctx) (acc : list stmt) (n : nat) : P (list stmt) :=
           match n with
           | O => nofuel
           | S n' =>
               t <- peek ;;
               if existsb (tt_eqb (fst t)) terms then
                 guard (cb acc true) ;;; ret acc
               else
                 sa <- (if tok_is t NEWLINE then ret (None, c)
                        else
                          st <- p_stmt c f ;;
                          let global := is_global c in
                          match st with
                          | SVarDef vs _ | SVarDefCall vs _ =>
                              match add_vars c prefix global vs with Some c' => ret (Some st, c') | None => fail end
                          | SFunc name rets params _ pub =>
                              match add_func c prefix global (mkFdef name rets params pub) with
                              | Some c' => ret (Some st, c') | None => fail end
                          | _ => ret (Some st, c)
                          end) ;;
                 let '(so, c') := sa in
                 let acc' := match so with Some st => acc ++ [st] | None => acc end in
                 guard (match so with Some _ => cb acc' false | None => true end) ;;;
                 tt_ <- peek ;;
                 if tok_is tt_ NEWLINE then eat ;;; loop c' acc' n'
                 else if existsb (tt_eqb (fst tt_)) terms then loop c' acc' n'
                 else fail
           end) (push_scope c0 sc) [] f
    end.
End Stmt.

(* ---------- files, imports, whole programs ---------- *)

Record fentry := mkFe { fe_content : bytes; fe_prefix : bytes }.  (* prefix: "i" + 7 hex digits of the SHA-256, supplied by the environment *)
Record env := mkEnv { e_fs : list (bytes * fentry); e_stddir : bytes }.   (* stddir = <dir of the executable>/std *)

Fixpoint split_last_slash (s acc : bytes) (dir : option bytes) : option bytes * bytes :=
  (* returns (Some dir-before-last-slash | None, last element) *)
  match s with
  | [] => (dir, rev acc)
  | c :: r => if c =? 47 then split_last_slash r [] (Some (match dir with Some d => d ++ 47 :: rev acc | None => rev acc end))
              else split_last_slash r (c :: acc) dir
  end.
Definition dirname (p : bytes) : bytes := match fst (split_last_slash p [] None) with Some d => d | None => [46] end.
Definition basename (p : bytes) : bytes := snd (split_last_slash p [] None).

Fixpoint ext_of (name : bytes) : bytes :=       (* from the last dot of a path element, or empty *)
  match name with
  | [] => []
  | c :: r => match ext_of r with
              | [] => if (c =? 46) && negb (existsb (fun d => d =? 46) r) then name else []
              | e => e
              end
  end.
Definition trim_ext (p : bytes) : bytes := firstn (length p - length (ext_of (basename p))) p.
Definition is_abs (p : bytes) : bool := hd_is 47 p.
Definition path_join (d r : bytes) : bytes := d ++ 47 :: r.

Definition merge_used (mine theirs : list (bytes * list bytes)) : list (bytes * list bytes) :=
  fold_left (fun acc kv =>
               let '(k, l) := kv in
               match aget k acc with
               | None => aset k l acc
               | Some found => aset k (found ++ filter (fun x => negb (mem x found)) l) acc
               end) theirs mine.

(* getUsedFuncs(""): everything reachable from top-level code in the recorded call graph
   (worklist closure; None = fuel exhausted, excluded by the correspondence check) *)
Fixpoint reach (u : list (bytes * list bytes)) (fuel : nat) (work : list bytes) (seen : list bytes) : option (list bytes) :=
  match work with
  | [] => Some seen
  | x :: w =>
      match fuel with
      | O => None
      | S f =>
          if mem x seen then reach u f w seen
          else reach u f (match aget x u with Some l => l ++ w | None => w end) (x :: seen)
      end
  end.

Definition used_funcs (u : list (bytes * list bytes)) : option (list bytes) :=
  let edges := fold_right (fun kv n => (length (snd kv) + n)%nat) 0%nat u in
  reach u (S (length u + edges + edges)) (match aget [] u with Some l => l | None => [] end) [].

Definition clean_program (u : list (bytes * list bytes)) (body : list stmt) : option (list stmt) :=
  match used_funcs u with
  | Some keep => Some (filter (fun s => match s with SFunc name _ _ _ _ => mem name keep | _ => true end) body)
  | None => None
  end.

Inductive pres :=
| POk (body : list stmt) (used : list (bytes * list bytes)) (prefix : bytes) (inc : list bytes)   (* inc: files whose code is part of the program so far *)
| PErr
| PFuel.

Definition tok_fuel (ts : list ptoken) : nat := S (S (length ts)).

Section Files.
  Variable E : env.

  Definition lookup_file (p : bytes) : option fentry := aget p (e_fs E).

  (* the duplicate filter at the end of evaluateImports *)
  Fixpoint import_filter (c : ctx) (stmts : list (stmt * bool)) (acc : list stmt) : ctx * list stmt :=
    match stmts with
    | [] => (c, acc)
    | (st, emit) :: r =>
        match st with
        | SVarDef vs _ =>
            let '(c', ex) := fold_left (fun ce v =>
                               let '(c1, _) := ce in
                               match aget (v_name v) (c_vars c1) with
                               | Some _ => (c1, true)
                               | None => if v_public v
                                         then (mkCtx (c_imports c1) (aset (v_name v) v (c_vars c1)) (c_funcs c1) (c_scopes c1), false)
                                         else (c1, false)
                               end) vs (c, false) in
            import_filter c' r (if ex || negb emit then acc else acc ++ [st])
        | SFunc name rets params _ pub =>
            match aget name (c_funcs c) with
            | Some _ => import_filter c r acc
            | None =>
                let c' := if pub then mkCtx (c_imports c) (c_vars c) (aset name (mkFdef name rets params pub) (c_funcs c)) (c_scopes c) else c in
                import_filter c' r (if emit then acc ++ [st] else acc)
            end
        | _ => import_filter c r (if emit then acc ++ [st] else acc)
        end
    end.

  (* parser.parse on a file whose entry (content, prefix) has been looked up *)
  Fixpoint parse_entry (depth : nat) (stack : list bytes) (inc0 : list bytes) (path : bytes) (imported : bool) (fe : fentry) : pres :=
    match depth with
    | O => PFuel
    | S depth' =>
            match parser_input (tokenize (fe_content fe)) with
            | None => PErr
            | Some ts =>
                let prefix := if imported then fe_prefix fe else [] in
                let fuel := tok_fuel ts in
                (* evaluateImports *)
                let p_import : P (bytes * bytes) :=
                  t <- eat ;;
                  at_ <- (if tok_is t IDENTIFIER then t2 <- eat ;; ret (snd t, t2) else ret ([], t)) ;;
                  let '(alias, pt) := at_ in
                  guard (tok_is pt STRING_LITERAL) ;;;
                  nl <- peek ;;
                  (if tok_is nl NEWLINE then eat ;;; ret tt else guard (tok_is nl EOF)) ;;;
                  ret (alias, snd pt) in
                let import_one (c : ctx) (stmts : list (stmt * bool)) (inc : list bytes) : P (ctx * list (stmt * bool) * list bytes) :=
                  ap <- p_import ;;
                  let '(alias0, ipath) := ap in
                  let abs0 := if is_abs ipath then ipath else path_join (dirname path) ipath in
                  target <- (match lookup_file abs0 with
                             | Some _ => match alias0 with [] => fail | _ => ret (abs0, alias0) end
                             | None =>
                                 let noext := trim_ext ipath in
                                 ret (path_join (e_stddir E) (noext ++ bs ".tsh"),
                                      match alias0 with [] => basename noext | _ => alias0 end)
                             end) ;;
                  let '(abs, alias) := target in
                  guard (negb (mem abs (stack ++ [path]))) ;;;
                  match (match lookup_file abs with
                         | Some fe' => parse_entry depth' (stack ++ [path]) (abs :: inc) abs true fe'
                         | None => PErr          (* os.Stat fails *)
                         end) with
                  | PFuel => nofuel
                  | PErr => fail
                  | POk body iused iprefix inc' =>
                      guard (match aget alias (c_imports c) with Some _ => false | None => true end) ;;;
                      u <- get_used ;;
                      set_used (merge_used u iused) ;;;
                      ret (add_import c alias iprefix, stmts ++ map (fun st => (st, negb (mem abs inc))) body, inc')
                  end in
                let p_imports (c : ctx) : P (ctx * list (stmt * bool) * list bytes) :=
                  t <- peek ;;
                  if tok_is t IMPORT then
                    eat ;;;
                    nx <- peek ;;
                    if tok_is nx OPENING_ROUND_BRACKET then
                      eat ;;;
                      expect NEWLINE ;;;
                      (fix loop (c : ctx) (stmts : list (stmt * bool)) (inc : list bytes) (n : nat) : P (ctx * list (stmt * bool) * list bytes) :=
                         match n with
                         | O => nofuel
                         | S n' =>
                             cs <- import_one c stmts inc ;;
                             let '(c', stmts', inc') := cs in
                             nx <- peek ;;
                             if tok_is nx CLOSING_ROUND_BRACKET then eat ;;; ret (c', stmts', inc')
                             else if tok_is nx IDENTIFIER || tok_is nx STRING_LITERAL then loop c' stmts' inc' n'
                             else fail
                         end) c [] inc0 fuel
                    else import_one c [] inc0
                  else ret (c, [], inc0) in
                let whole : P (list stmt * list bytes) :=
                  cs <- p_imports new_ctx ;;
                  let '(c1, itemp, inc1) := cs in
                  let '(c2, istmts) := import_filter c1 itemp [] in
                  let c3 := add_import c2 prefix prefix in
                  body <- p_block_content prefix [EOF] no_callback c3 ScProgram fuel ;;
                  ret (istmts ++ body, inc1) in
                match whole (mkPS ts [] []) with
                | Ok (body, inc1) s =>
                    if imported then POk body (used s) prefix inc1
                    else match clean_program (used s) body with
                         | Some b => POk b (used s) prefix inc1
                         | None => PFuel
                         end
                | Err => PErr
                | Fuel => PFuel
                end
            end
    end.

  (* parser.Parse(path) *)
  Definition parse_main (path : bytes) : pres :=
    match lookup_file path with
    | Some fe => parse_entry (S (length (e_fs E))) [] [] path false fe
    | None => PErr
    end.
End Files.
