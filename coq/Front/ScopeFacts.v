(* Misplaced constructs are rejected whatever surrounds them (C07): one-step facts about the statement parser. *)
From Verif Require Import Base.Bytestr gen.Tables Lex.LexModel Front.Squeeze Front.Ast Front.FrontModel.
Open Scope N_scope.

Definition starts_with (ty : toktype) (s : pstate) : Prop :=
  exists v r, toks s = (ty, v) :: r.

Lemma peek_first ty s : starts_with ty s -> exists v, peek s = Ok (ty, v) s.
Proof. intros (v & r & E). exists v. unfold peek, peek_at. rewrite E. reflexivity. Qed.

(* break outside of a loop *)
Theorem break_needs_loop prefix c f s :
  starts_with BREAK s -> find_scope c ScFor = false -> p_stmt prefix c (S f) s = Err.
Proof.
  intros H Hs. destruct (peek_first _ _ H) as (v & Hp). cbn [p_stmt]. unfold bind at 1. rewrite Hp. cbn [fst].
  unfold bind, eat, guard. rewrite Hs. reflexivity.
Qed.

Theorem continue_needs_loop prefix c f s :
  starts_with CONTINUE s -> find_scope c ScFor = false -> p_stmt prefix c (S f) s = Err.
Proof.
  intros H Hs. destruct (peek_first _ _ H) as (v & Hp). cbn [p_stmt]. unfold bind at 1. rewrite Hp. cbn [fst].
  unfold bind, eat, guard. rewrite Hs. reflexivity.
Qed.

Theorem return_needs_function prefix c f s :
  starts_with RETURN s -> find_scope c ScFunction = false -> p_stmt prefix c (S f) s = Err.
Proof.
  intros H Hs. destruct (peek_first _ _ H) as (v & Hp). cbn [p_stmt]. unfold bind at 1. rewrite Hp. cbn [fst].
  unfold bind, eat, guard. rewrite Hs. reflexivity.
Qed.

Theorem func_needs_top_level prefix c f s :
  starts_with FUNCTION_DEFINITION s -> is_global c = false -> p_stmt prefix c (S f) s = Err.
Proof.
  intros H Hs. destruct (peek_first _ _ H) as (v & Hp). cbn [p_stmt]. unfold bind at 1. rewrite Hp. cbn [fst].
  unfold bind, eat, guard. rewrite Hs. reflexivity.
Qed.

(* a block body is parsed with its scope pushed: inside if/switch bodies of top-level code there is no loop *)
Lemma push_scope_find c sc x : find_scope (push_scope c sc) x = find_scope c x || scope_eqb x sc.
Proof. unfold find_scope, push_scope. cbn [c_scopes]. rewrite existsb_app. simpl. rewrite orb_false_r. reflexivity. Qed.

(* use of an undefined variable *)
Theorem undefined_variable_rejected prefix c s name r :
  toks s = (IDENTIFIER, name) :: r -> find_var c name prefix (is_global c) = None ->
  p_var_eval prefix c s = Err.
Proof.
  intros E Hf. unfold p_var_eval, expect, bind, eat, guard. rewrite E. cbn [nth tl fst snd].
  unfold tok_is, tt_eqb. cbn [fst toktype_beq]. cbn [ret snd]. rewrite Hf. reflexivity.
Qed.
