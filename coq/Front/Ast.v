(* Core AST: the node types of /repo/parser one to one (typed, resolved, desugared). *)
From Verif Require Import Base.Bytestr.
From Coq Require Import ZArith.

Inductive dtype := DUnknown | DMultiple | DBool | DInt | DString.
Record vtype := mkVT { dt : dtype; is_slice : bool }.

Record var := mkVar { v_name : bytes; v_type : vtype; v_global : bool; v_public : bool }.

Inductive binop := OpMul | OpDiv | OpMod | OpAdd | OpSub.
Inductive cmpop := CEq | CNe | CLt | CLe | CGt | CGe.
Inductive logop := LAnd | LOr.

Inductive expr :=
| EBool (b : bool)
| EInt (z : Z)
| EStr (s : bytes)
| EUnary (e : expr)                              (* !e *)
| EBinary (l : expr) (op : binop) (r : expr)
| ECompare (l : expr) (op : cmpop) (r : expr)
| ELogical (l : expr) (op : logop) (r : expr)
| EVar (v : var)
| EGroup (e : expr)
| ECall (name : bytes) (rets : list vtype) (args : list expr)
| EApp (calls : list (bytes * list expr))        (* @a(..) | @b(..) ... *)
| ESliceInst (d : dtype) (vals : list expr)
| ESliceEval (value index : expr) (d : dtype)
| ESubscript (value start : expr) (stop : option expr)
| ELen (e : expr)
| EInput (prompt : option expr)
| ECopy (dst : var) (src : expr)
| EItoa (e : expr)
| EExists (e : expr)
| ERead (e : expr).

Inductive stmt :=
| SVarDef (vars : list var) (vals : list expr)
| SVarDefCall (vars : list var) (call : expr)
| SAssign (vars : list var) (vals : list expr)
| SAssignCall (vars : list var) (call : expr)
| SSliceAssign (v : var) (idx val : expr)
| SFunc (name : bytes) (rets : list vtype) (params : list var) (body : list stmt) (public : bool)
| SReturn (vals : list expr)
| SIf (branches : list (expr * list stmt)) (els : list stmt)
| SFor (init : option stmt) (cond : expr) (incr : option stmt) (body : list stmt)
| SBreak
| SContinue
| SPrint (es : list expr)
| SPanic (e : expr)
| SWrite (path data app : expr)
| SExpr (e : expr).

Definition program := list stmt.

Definition T (d : dtype) : vtype := mkVT d false.
Definition TS (d : dtype) : vtype := mkVT d true.

Definition dtype_eqb (a b : dtype) : bool :=
  match a, b with
  | DUnknown, DUnknown | DMultiple, DMultiple | DBool, DBool | DInt, DInt | DString, DString => true
  | _, _ => false
  end.

Definition vtype_eqb (a b : vtype) : bool := dtype_eqb (dt a) (dt b) && Bool.eqb (is_slice a) (is_slice b).

Definition is_bool (t : vtype) := dtype_eqb (dt t) DBool && negb (is_slice t).
Definition is_int (t : vtype) := dtype_eqb (dt t) DInt && negb (is_slice t).
Definition is_string (t : vtype) := dtype_eqb (dt t) DString && negb (is_slice t).

(* functionValueType *)
Definition rets_type (rets : list vtype) : vtype :=
  match rets with
  | [] => T DUnknown
  | [t] => t
  | _ => T DMultiple
  end.

(* Expression.ValueType() *)
Fixpoint type_of (e : expr) : vtype :=
  match e with
  | EBool _ => T DBool
  | EInt _ => T DInt
  | EStr _ => T DString
  | EUnary e => type_of e
  | EBinary l _ _ => type_of l
  | ECompare _ _ _ => T DBool
  | ELogical _ _ _ => T DBool
  | EVar v => v_type v
  | EGroup e => type_of e
  | ECall _ rets _ => rets_type rets
  | EApp _ => T DMultiple
  | ESliceInst d _ => TS d
  | ESliceEval _ _ d => T d
  | ESubscript _ _ _ => T DString
  | ELen _ => T DInt
  | EInput _ => T DString
  | ECopy _ _ => T DInt
  | EItoa _ => T DString
  | EExists _ => T DBool
  | ERead _ => T DString
  end.

(* Call.ReturnTypes() for the two kinds of call *)
Definition call_rets (e : expr) : option (list vtype) :=
  match e with
  | ECall _ rets _ => Some rets
  | EApp _ => Some [T DString; T DString; T DInt]
  | _ => None
  end.
