package main

import (
	"fmt"
	"math/rand"
	"strings"
)

// blocks stream (C16): every kind of block whose ONLY statement is one of the statements that may emit no line of their own
// (an expression statement whose value is dropped, a declaration, nothing at all): the emitted compound command must not be
// empty.  Programs the parser rejects are skipped by the oracle.
var soleStatements = []string{
	"", "read(\"f.txt\")", "read(p)", "exists(\"f.txt\")", "exists(p)", "input()", "input(\"? \")", "len(xs)", "len(p)", "itoa(n)", "copy(ys, xs)",
	"g()", "h(1)", "@true()", "@echo(p)", "var v int", "var w string", "var zs []int", "v2 := 1", "v3 := p", "v4 := xs", "n = n", "xs[0] = 1",
	"p + p", "n + 1", "xs[0]", "p[0:1]", "(n)", "!b", "n == 1", "write(\"f.txt\", p)", "print()", "panic(p)",
}

func blockPrograms() []string {
	pre := "p := \"f.txt\"\nn := 1\nb := true\nxs := []int{1, 2}\nys := []int{0, 0}\nfunc g() int {\n\treturn 1\n}\nfunc h(a int) {\n\tprint(a)\n}\n"
	shapes := []string{
		"if b {\n\t%s\n}\n",
		"if !b {\n\tprint(1)\n} else {\n\t%s\n}\n",
		"if !b {\n\tprint(1)\n} else if b {\n\t%s\n} else {\n\tprint(2)\n}\n",
		"if exists(p) {\n\t%s\n} else {\n\tprint(\"no\")\n}\n",
		"for n < 1 {\n\t%s\n}\n",
		"for i := 0; i < 1; i++ {\n\t%s\n}\n",
		"for i, x := range xs {\n\t%s\n}\n",
		"func body() {\n\t%s\n}\nbody()\n",
		"func body1(a int) {\n\t%s\n}\nbody1(1)\n",
		"switch n {\ncase 1:\n\t%s\ncase 2:\n\tprint(2)\n}\n",
		"switch n {\ncase 2:\n\tprint(2)\ndefault:\n\t%s\n}\n",
		"for i := 0; i < 1; i++ {\n\tif b {\n\t\t%s\n\t}\n}\n",
	}
	out := []string{}
	for _, sh := range shapes {
		for _, st := range soleStatements {
			st2 := strings.ReplaceAll(st, "\n", "\n\t")
			out = append(out, pre+fmt.Sprintf(sh, st2))
		}
	}
	return out
}

func init() {
	streams["blocks"] = func(r *rand.Rand, n int, g *genOut) {
		ps := blockPrograms()
		for _, src := range ps {
			f := progFields("main.tsh", map[string]string{"main.tsh": src}, false)
			g.addCase("emit", f...)
		}
		g.meta["block_programs"] = len(ps)
	}
}
