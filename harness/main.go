// harness: generators and implementation runner for the correspondence checks.
//   harness gen <stream> <seed> <n> <outdir>   writes cases.txt, expect.txt, meta.json
//   harness run <cases.txt> <impl.txt>         runs /repo's implementation on every case
// Every random choice derives from one PRNG seeded by <seed>.
package main

import (
	"sync"
	"bufio"
	"encoding/hex"
	"encoding/json"
	"fmt"
	"math/rand"
	"os"
	"path/filepath"
	"strconv"
	"strings"
)

type genOut struct {
	cases  *bufio.Writer
	expect *bufio.Writer
	meta   map[string]any
	n      int
}

func (g *genOut) addCase(kind string, fields ...string) string {
	id := strconv.Itoa(g.n)
	g.n++
	fmt.Fprintf(g.cases, "%s %s %s\n", kind, id, strings.Join(fields, " "))
	return id
}

func (g *genOut) addExpect(kind string, id string, obs string) {
	fmt.Fprintf(g.expect, "%s %s %s\n", kind, id, obs)
}

func hx(s string) string { return hex.EncodeToString([]byte(s)) }
func unhx(s string) string {
	b, err := hex.DecodeString(s)
	if err != nil {
		panic(err)
	}
	return string(b)
}

func die(f string, a ...any) {
	fmt.Fprintf(os.Stderr, "harness: "+f+"\n", a...)
	os.Exit(2)
}

type stream func(r *rand.Rand, n int, g *genOut)

var streams = map[string]stream{}

// runners: case kind -> implementation runner (fields f[0]=kind, f[1]=id, f[2..]=payload)
var runners = map[string]func(f []string) string{
	"lex":   func(f []string) string { return runLex(unhx(f[2])) },
	"tsh":   runTsh,
	"parse": runParse,
	"emit":  runEmit,
}

func main() {
	if len(os.Args) < 2 {
		die("usage")
	}
	switch os.Args[1] {
	case "gen":
		name := os.Args[2]
		seed, _ := strconv.ParseInt(os.Args[3], 10, 64)
		n, _ := strconv.Atoi(os.Args[4])
		dir := os.Args[5]
		st, ok := streams[name]
		if !ok {
			die("unknown stream %s", name)
		}
		os.MkdirAll(dir, 0755)
		cf, _ := os.Create(filepath.Join(dir, "cases.txt"))
		ef, _ := os.Create(filepath.Join(dir, "expect.txt"))
		g := &genOut{cases: bufio.NewWriterSize(cf, 1<<20), expect: bufio.NewWriterSize(ef, 1<<20), meta: map[string]any{}}
		st(rand.New(rand.NewSource(seed)), n, g)
		g.cases.Flush()
		g.expect.Flush()
		cf.Close()
		ef.Close()
		g.meta["cases"] = g.n
		g.meta["seed"] = seed
		mb, _ := json.MarshalIndent(g.meta, "", " ")
		os.WriteFile(filepath.Join(dir, "meta.json"), mb, 0644)
	case "run":
		runCases(os.Args[2], os.Args[3])
	case "hist-child":
		histChild(os.Args[2], os.Args[3])
	case "gen-selftest":
		seed, _ := strconv.ParseInt(os.Args[2], 10, 64)
		n, _ := strconv.Atoi(os.Args[3])
		os.Exit(min1(genSelfTest(seed, n)))
	default:
		die("unknown command %s", os.Args[1])
	}
}

func runCases(casesPath string, outPath string) {
	in, err := os.Open(casesPath)
	if err != nil {
		die("%v", err)
	}
	defer in.Close()
	outf, _ := os.Create(outPath)
	defer outf.Close()
	out := bufio.NewWriterSize(outf, 1<<20)
	defer out.Flush()
	sc := bufio.NewScanner(in)
	sc.Buffer(make([]byte, 1<<20), 1<<28)
	lines := []string{}
	for sc.Scan() {
		lines = append(lines, sc.Text())
	}
	// the runners are independent of each other (own scratch directories, read-only package tables):
	// run them on a small pool and keep the output in input order
	results := make([]string, len(lines))
	workers := 8
	if w, err := strconv.Atoi(os.Getenv("HARNESS_WORKERS")); err == nil && w > 0 {
		workers = w
	}
	var wg sync.WaitGroup
	next := make(chan int, 64)
	for w := 0; w < workers; w++ {
		wg.Add(1)
		go func() {
			defer wg.Done()
			for i := range next {
				f := strings.Split(lines[i], " ")
				if len(f) < 2 {
					continue
				}
				for len(f) < 3 {
					f = append(f, "")
				}
				if rn, ok := runners[f[0]]; ok {
					for len(f) < 8 {
						f = append(f, "")
					}
					results[i] = fmt.Sprintf("%s %s %s\n", f[0], f[1], rn(f))
				} else {
					results[i] = fmt.Sprintf("unknown-case-kind %s\n", f[0])
				}
			}
		}()
	}
	for i := range lines {
		next <- i
	}
	close(next)
	wg.Wait()
	for _, r := range results {
		out.WriteString(r)
	}
}

func sortStrings(s []string) {
	for i := 1; i < len(s); i++ {
		for j := i; j > 0 && s[j] < s[j-1]; j-- {
			s[j], s[j-1] = s[j-1], s[j]
		}
	}
}
