package main

import (
	"fmt"
	"math/rand"
	"strings"
)

// imports stream (C09): acyclic import graphs of small modules whose behaviour as a composition is
// known by construction.  Module i (i>0) offers
//   Get<i>()   = a constant plus the Get of everything it imports (through its aliases), using a private helper
//   Bump<i>()  / Read<i>() over the module's own public global Count<i>  (state must exist once, whatever the alias)
//   a private global, a private function, an unused public function, optionally a top-level statement.
// The main file calls into a random subset.  Expected stdout is computed here, from the meaning of
// modules, not from any model.  Cases where some file is reached along several import paths or
// aliases are counted as "shared" in the distribution: such a file's code must be part of the program once.

type modSpec struct {
	name    string
	imports []int    // indices of imported modules
	aliases []string // alias per import
	konst   int
	topStmt bool
}

func genImportCase(r *rand.Rand) (files map[string]string, expected string, shared bool, withStd bool, feats []string) {
	n := 2 + r.Intn(5) // modules incl. main (index 0)
	mods := make([]modSpec, n)
	names := []string{"main.tsh", "alpha.tsh", "beta.tsh", "lib/gamma.tsh", "delta.tsh", "lib/eps.tsh"}
	indeg := make([]int, n)
	for i := 0; i < n; i++ {
		mods[i] = modSpec{name: names[i], konst: (i + 1) * 10, topStmt: r.Intn(2) == 0}
		for j := i + 1; j < n; j++ {
			if strings.HasPrefix(names[i], "lib/") && !strings.HasPrefix(names[j], "lib/") { // imports are relative to the importing file: lib/ modules import lib/ modules only
				continue
			}
			if r.Intn(2) == 0 || (i == 0 && j == 1) {
				mods[i].imports = append(mods[i].imports, j)
				mods[i].aliases = append(mods[i].aliases, fmt.Sprintf("m%d", j))
				indeg[j]++
				if r.Intn(5) == 0 { // the same file under a second alias
					mods[i].imports = append(mods[i].imports, j)
					mods[i].aliases = append(mods[i].aliases, fmt.Sprintf("n%d", j))
					indeg[j]++
					feats = append(feats, "double-alias")
				}
			}
		}
	}
	// reachability from main and multiplicity of paths
	paths := make([]int, n)
	paths[0] = 1
	for i := 0; i < n; i++ {
		for _, j := range mods[i].imports {
			paths[j] += paths[i]
		}
	}
	for j := 1; j < n; j++ {
		if paths[j] > 1 {
			shared = true
		}
	}
	get := make([]int, n)
	for i := n - 1; i >= 1; i-- {
		get[i] = mods[i].konst + 1
		seen := map[int]bool{}
		for _, j := range mods[i].imports {
			if !seen[j] {
				get[i] += get[j]
				seen[j] = true
			}
		}
	}
	files = map[string]string{}
	for i := 1; i < n; i++ {
		var sb strings.Builder
		m := mods[i]
		if len(m.imports) > 0 {
			sb.WriteString("import (\n")
			for k, j := range m.imports {
				ip := names[j]
				if strings.HasPrefix(names[i], "lib/") { // the same file is spelled differently from inside lib/
					ip = strings.TrimPrefix(ip, "lib/")
				}
				sb.WriteString(fmt.Sprintf("\t%s \"%s\"\n", m.aliases[k], ip))
			}
			sb.WriteString(")\n")
		}
		sb.WriteString(fmt.Sprintf("var Count%d int = 0\nvar secret%d = %d\n", i, i, m.konst))
		sb.WriteString(fmt.Sprintf("func helper%d() int {\n\treturn secret%d + 1\n}\n", i, i))
		sb.WriteString(fmt.Sprintf("func Get%d() int {\n\tr := helper%d()\n", i, i))
		seen := map[int]bool{}
		for k, j := range m.imports {
			if !seen[j] {
				sb.WriteString(fmt.Sprintf("\tr = r + %s.Get%d()\n", m.aliases[k], j))
				seen[j] = true
			}
		}
		sb.WriteString("\treturn r\n}\n")
		sb.WriteString(fmt.Sprintf("func Bump%d() {\n\tCount%d = Count%d + 1\n}\nfunc Read%d() int {\n\treturn Count%d\n}\n", i, i, i, i, i))
		// a private global with the SAME name in every file (main included): each file has its own
		sb.WriteString(fmt.Sprintf("var state int = %d\nfunc State%d() int {\n\treturn state\n}\nfunc Touch%d() {\n\tstate = state + 1\n}\n", m.konst*3, i, i))
		sb.WriteString(fmt.Sprintf("func Unused%d() string {\n\treturn \"never\"\n}\n", i))
		if m.topStmt {
			// load-time code: a function reachable from nowhere else, state changes in imported modules
			sb.WriteString(fmt.Sprintf("func setup%d() {\n\tprint(\"init\", %d)\n}\nsetup%d()\n", i, i, i))
			for k, j := range m.imports {
				if k == 0 || m.imports[k-1] != j {
					sb.WriteString(fmt.Sprintf("%s.Bump%d()\n", m.aliases[k], j))
				}
			}
			feats = append(feats, "top-level-statement")
		}
		files[names[i]] = sb.String()
	}
	// expected init order: depth-first in import order, each module once
	var out []string
	done := map[int]bool{}
	counts := make([]int, n)
	var visit func(i int)
	visit = func(i int) {
		for _, j := range mods[i].imports {
			if !done[j] {
				done[j] = true
				visit(j)
				if mods[j].topStmt {
					out = append(out, fmt.Sprintf("init %d", j))
					for k, jj := range mods[j].imports {
						if k == 0 || mods[j].imports[k-1] != jj {
							counts[jj]++
						}
					}
				}
			}
		}
	}
	visit(0)
	var mb strings.Builder
	m := mods[0]
	withStd = r.Intn(4) == 0
	if len(m.imports) > 0 || withStd {
		mb.WriteString("import (\n")
		if withStd {
			mb.WriteString("\t\"strings\"\n")
		}
		for k, j := range m.imports {
			mb.WriteString(fmt.Sprintf("\t%s \"%s\"\n", m.aliases[k], names[j]))
		}
		mb.WriteString(")\n")
	}
	mb.WriteString("var state int = 1000\nfunc localfn() int {\n\treturn 7\n}\n")
	mb.WriteString("print(\"main\", localfn())\n")
	out = append(out, "main 7")
	touches := make([]int, n)
	for k, j := range m.imports {
		a := m.aliases[k]
		mb.WriteString(fmt.Sprintf("print(%s.Get%d())\n", a, j))
		out = append(out, fmt.Sprint(get[j]))
		if r.Intn(2) == 0 {
			mb.WriteString(fmt.Sprintf("%s.Bump%d()\n%s.Bump%d()\nprint(\"count\", %s.Read%d())\n", a, j, a, j, a, j))
			counts[j] += 2
			out = append(out, fmt.Sprintf("count %d", counts[j]))
			feats = append(feats, "module-state")
		}
	}
	for k, j := range m.imports {
		a := m.aliases[k]
		mb.WriteString(fmt.Sprintf("%s.Touch%d()\nstate = state + 5\nprint(\"state\", state, %s.State%d())\n", a, j, a, j))
		touches[j]++
		out = append(out, fmt.Sprintf("state %d %d", 1000+5*(k+1), mods[j].konst*3+touches[j]))
	}
	if len(m.imports) > 0 {
		feats = append(feats, "same-named-private-globals")
	}
	if withStd {
		mb.WriteString("print(strings.Repeat(\"ab\", 2))\n")
		out = append(out, "abab")
	}
	files[names[0]] = mb.String()
	if shared {
		feats = append(feats, "shared")
	}
	return files, strings.Join(out, "\n") + "\n", shared, withStd, feats
}

func init() {
	streams["imports"] = func(r *rand.Rand, n int, g *genOut) {
		fc := map[string]int{}
		for i := 0; i < n; i++ {
			files, expected, shared, std, feats := genImportCase(r)
			for _, f := range feats {
				fc[f]++
			}
			f := progFields("main.tsh", files, std)
			tag := ""
			_ = shared // shared files must behave like any other (the duplication defect is fixed in /repo)
			g.addCase("emit", f...)
			id := fmt.Sprintf("%d%s", g.n, tag)
			fmt.Fprintf(g.cases, "run %s %s\n", id, strings.Join(f, " "))
			g.n++
			g.addExpect("run", id, fmt.Sprintf("transpile=ok out=%s status=0 stderr=", hx(expected)))
		}
		g.meta["imports_features"] = fc
	}
}
