package main

import (
	"bytes"
	"fmt"
	"os"
	"os/exec"
	"path/filepath"
	"strings"
	"syscall"
	"time"
)

// runScript executes a Bash script in an empty scratch directory with a minimal environment.
// stdin is given as text; files: relative path -> content, created before the run.
type scriptResult struct {
	stdout, stderr string
	status         int
	timeout        bool
	files          map[string]string // files in the scratch directory afterwards (without the script itself)
}

func runScript(script string, stdin string, files map[string]string, extraPath string) scriptResult {
	return runScriptT(script, stdin, files, extraPath, 10*time.Second)
}

func runScriptT(script string, stdin string, files map[string]string, extraPath string, limit time.Duration) scriptResult {
	return runScriptL(script, stdin, files, extraPath, limit, "C")
}

// runScriptL: the script under /bin/bash with LC_ALL set to the given locale
func runScriptL(script string, stdin string, files map[string]string, extraPath string, limit time.Duration, locale string) scriptResult {
	dir, _ := os.MkdirTemp("", "run")
	defer os.RemoveAll(dir)
	work := filepath.Join(dir, "w")
	os.MkdirAll(work, 0755)
	for p, c := range files {
		os.MkdirAll(filepath.Dir(filepath.Join(work, p)), 0755)
		os.WriteFile(filepath.Join(work, p), []byte(c), 0644)
	}
	sp := filepath.Join(dir, "script.sh")
	os.WriteFile(sp, []byte(script), 0755)
	cmd := exec.Command("/bin/bash", sp)
	cmd.Dir = work
	path := "/usr/bin:/bin"
	if extraPath != "" {
		path = extraPath + ":" + path
	}
	cmd.Env = []string{"PATH=" + path, "HOME=" + work, "LC_ALL=" + locale}
	cmd.Stdin = strings.NewReader(stdin)
	cmd.SysProcAttr = &syscall.SysProcAttr{Setpgid: true} // so that everything the script forks can be killed with it
	cmd.WaitDelay = time.Second                           // do not wait for orphans that keep the pipes open
	var so, se bytes.Buffer
	cmd.Stdout = &so
	cmd.Stderr = &se
	res := scriptResult{files: map[string]string{}}
	if err := cmd.Start(); err != nil {
		res.stderr = err.Error()
		res.status = 127
		return res
	}
	done := make(chan error, 1)
	go func() { done <- cmd.Wait() }()
	select {
	case err := <-done:
		if ee, ok := err.(*exec.ExitError); ok {
			res.status = ee.ExitCode()
		}
	case <-time.After(limit):
		syscall.Kill(-cmd.Process.Pid, syscall.SIGKILL)
		cmd.Process.Kill()
		<-done
		res.timeout = true
	}
	syscall.Kill(-cmd.Process.Pid, syscall.SIGKILL) // whatever the script left running
	res.stdout, res.stderr = so.String(), se.String()
	filepath.Walk(work, func(p string, info os.FileInfo, err error) error {
		if err == nil && !info.IsDir() {
			rel, _ := filepath.Rel(work, p)
			b, _ := os.ReadFile(p)
			res.files[rel] = string(b)
		}
		return nil
	})
	return res
}

// runRun: transpile to Bash with the real library and execute: out=<hex> status=<n> stderr=<hex>
func runRun(f []string) string { return runRunLocale(f, "C") }

func runRunLocale(f []string, locale string) string {
	dir, _ := os.MkdirTemp("", "rr")
	defer os.RemoveAll(dir)
	real := materialise(dir, unhx(f[2]), parseFiles(f[3]))
	t := transpileTo(real, "bash")
	if !strings.HasPrefix(t, "ok:") {
		return "transpile=" + t
	}
	r := runScriptL(unhx(t[3:]), "", nil, "", 10*time.Second, locale)
	if r.timeout {
		return "transpile=ok timeout=1"
	}
	return fmt.Sprintf("transpile=ok out=%s status=%d stderr=%s", hx(r.stdout), r.status, hx(r.stderr))
}

// runBatRun: like runRun, plus the implementation's Batch script (for the cmd.exe model of the driver)
func runBatRun(f []string) string {
	dir, _ := os.MkdirTemp("", "rb")
	defer os.RemoveAll(dir)
	real := materialise(dir, unhx(f[2]), parseFiles(f[3]))
	w := transpileTo(real, "batch")
	o := runRun(f)
	if strings.HasPrefix(w, "ok:") {
		return o + " bat=" + w[3:]
	}
	return o + " bat=-"
}

func init() {
	runners["run"] = runRun
	runners["batrun"] = runBatRun
}
