package main

import (
	"fmt"
	"strings"

	"github.com/monstermichl/typeshell/lexer"
)

// runLex runs the real lexer and renders the observation compared with the model.
func runLex(src string) (obs string) {
	defer func() {
		if r := recover(); r != nil {
			obs = "panic"
		}
	}()
	toks, err := lexer.Tokenize(src)
	if err != nil {
		return "err"
	}
	parts := make([]string, len(toks))
	for i, t := range toks {
		parts[i] = fmt.Sprintf("%d:%s:%d:%d", int(t.Type()), hx(t.Value()), t.Row(), t.Column())
	}
	return "ok " + strings.Join(parts, " ")
}
