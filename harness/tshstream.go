package main

import (
	"fmt"
	"math/rand"
	"os"
	"os/exec"
	"path/filepath"
	"sort"
	"strings"

	"github.com/monstermichl/typeshell/converters/bash"
	"github.com/monstermichl/typeshell/converters/batch"
	"github.com/monstermichl/typeshell/transpiler"
)

// case: tsh <id> <argv: hex words joined by ','> <fs: entries joined by ','; d<hexpath> | f<hexpath>.<hexcontent>> <hex infile> <bash: e|o<hex>> <batch: e|o<hex>>

var tshPrograms = []string{
	"print(1)\n",
	"func f(a int) int {\n\treturn a + 1\n}\nprint(f(2))\n",
	"x := \"hello\"\nfor i := 0; i < 2; i++ {\n\tprint(x, i)\n}\n",
	"import \"strings\"\nprint(strings.Contains(\"ab\", \"a\"))\n",
	"s := []int{1, 2}\ns[3] = 4\nprint(len(s))\n",
	// rejected programs: lexical, syntax, type, scope
	"x := \"abc\n",
	"x := 1 +\n",
	"x := 1 + \"a\"\n",
	"print(y)\n",
	"if 1 {\n}\n",
	"#\n",
}

func libResult(dir string, in string, target string) string {
	var conv transpiler.Converter
	if target == "bash" {
		conv = bash.New()
	} else {
		conv = batch.New()
	}
	t := transpiler.New()
	out, err := func() (s string, e error) {
		defer func() {
			if r := recover(); r != nil {
				e = fmt.Errorf("panic")
			}
		}()
		return t.Transpile(filepath.Join(dir, in), conv)
	}()
	if err != nil {
		return "e"
	}
	return "o" + hx(out)
}

func init() {
	streams["tsh"] = func(r *rand.Rand, n int, g *genOut) {
		stats := map[string]int{}
		tmp, _ := os.MkdirTemp("", "tshgen")
		defer os.RemoveAll(tmp)
		for i := 0; i < n; i++ {
			inNames := []string{"prog.tsh", "a.b.tsh", "noext", "my prog.tsh", ".tsh", "src/prog.tsh", "x.y/prog", "p.txt",
				// stems that end in letters of the extension, contain the extension, or are the extension's letters
				"lists.tsh", "hash.tsh", "sh.tsh", "tsh.tsh", "v1.s.tsh", "src/tests.tsh", "a.tsh.tsh", "prog.TSH", "t", "paths.txt"}
			in := inNames[r.Intn(len(inNames))]
			outs := []string{"out", "out dir", ".", "o.d"}
			out := outs[r.Intn(len(outs))]
			src := tshPrograms[r.Intn(5)]
			if r.Intn(4) == 0 {
				src = tshPrograms[5+r.Intn(len(tshPrograms)-5)]
			}
			fs := []string{}
			if d := filepath.Dir(in); d != "." {
				fs = append(fs, "d"+hx(d))
			}
			fs = append(fs, "f"+hx(in)+"."+hx(src))
			if out != "." {
				fs = append(fs, "d"+hx(out))
			}
			sw := func(short, long string) string {
				if r.Intn(3) == 0 {
					return long
				}
				return short
			}
			pairs := [][2]string{{sw("-i", "--in"), in}, {sw("-o", "--out"), out}}
			nt := 1 + r.Intn(3)
			for k := 0; k < nt; k++ {
				pairs = append(pairs, [2]string{sw("-t", "--type"), []string{"bash", "batch"}[r.Intn(2)]})
			}
			kind := "plain"
			switch r.Intn(22) {
			case 0:
				kind = "missing-in"
				pairs = pairs[1:]
			case 1:
				kind = "unknown-option"
				pairs = append(pairs, [2]string{"-x", "y"})
			case 2:
				kind = "unknown-target"
				pairs = append(pairs, [2]string{"-t", "zsh"})
			case 3:
				kind = "input-missing"
				pairs[0][1] = "nothere.tsh"
			case 4:
				kind = "input-is-dir"
				fs = append(fs, "d"+hx("adir"))
				pairs[0][1] = "adir"
			case 5:
				kind = "out-missing"
				pairs[1][1] = "nodir"
			case 6:
				kind = "out-is-file"
				fs = append(fs, "f"+hx("afile")+"."+hx("x"))
				pairs[1][1] = "afile"
			case 7:
				kind = "no-target"
				pairs = pairs[:2]
			case 8, 9, 10, 11:
				// an output file from an earlier run, longer than anything written now (history: transpile, shorten, transpile again)
				kind = "existing-output"
				stem := filepath.Base(in)
				if k := strings.LastIndex(stem, "."); k >= 0 {
					stem = stem[:k]
				}
				old := strings.Repeat("echo stale line from an earlier run\n", 150)
				for _, ext := range []string{"sh", "bat"} {
					if p := filepath.Join(out, stem+"."+ext); p != in && r.Intn(4) != 0 {
						fs = append(fs, "f"+hx(p)+"."+hx(old))
					}
				}
			}
			r.Shuffle(len(pairs), func(a, b int) { pairs[a], pairs[b] = pairs[b], pairs[a] })
			argv := []string{}
			for _, p := range pairs {
				argv = append(argv, hx(p[0]), hx(p[1]))
			}
			if r.Intn(12) == 0 {
				kind += "+dangling"
				argv = append(argv, hx([]string{"-t", "-q", "bash"}[r.Intn(3)]))
			}
			// library results for the designated program (in-process, fresh converter per call)
			dir := filepath.Join(tmp, fmt.Sprint(i))
			os.MkdirAll(filepath.Join(dir, filepath.Dir(in)), 0755)
			os.WriteFile(filepath.Join(dir, in), []byte(src), 0644)
			rb := libResult(dir, in, "bash")
			rw := libResult(dir, in, "batch")
			os.RemoveAll(dir)
			stats[kind]++
			if rb == "e" {
				stats["rejected-program"]++
			}
			id := g.addCase("tsh", strings.Join(argv, ","), strings.Join(fs, ","), hx(in), rb, rw)
			g.addExpect("tsh", id, tshOracle(argv, fs, in, rb, rw))
		}
		g.meta["tsh_kinds"] = stats
	}
}

// tshOracle: the behaviour the property prescribes, written directly from its text.
func tshOracle(argvHex []string, fs []string, in string, rb string, rw string) string {
	files := map[string]string{}
	dirs := map[string]bool{".": true}
	for _, e := range fs {
		if e[0] == 'd' {
			dirs[unhx(e[1:])] = true
		} else {
			p := strings.SplitN(e[1:], ".", 2)
			files[unhx(p[0])] = unhx(p[1])
		}
	}
	argv := []string{}
	for _, a := range argvHex {
		argv = append(argv, unhx(a))
	}
	fail := func() string { return tshObs(1, files) }
	if len(argv)%2 != 0 {
		return fail()
	}
	var inP, outP string
	targets := []string{}
	for i := 0; i < len(argv); i += 2 {
		switch argv[i] {
		case "-i", "--in":
			if _, ok := files[argv[i+1]]; !ok {
				return fail()
			}
			inP = argv[i+1]
		case "-o", "--out":
			if !dirs[argv[i+1]] {
				return fail()
			}
			outP = argv[i+1]
		case "-t", "--type":
			if argv[i+1] != "bash" && argv[i+1] != "batch" {
				return fail()
			}
			targets = append(targets, argv[i+1])
		default:
			return fail()
		}
	}
	if inP == "" || outP == "" || len(targets) == 0 {
		return fail()
	}
	name := filepath.Base(inP)
	if k := strings.LastIndex(name, "."); k >= 0 {
		name = name[:k]
	}
	for _, t := range targets {
		res, ext := rb, "sh"
		if t == "batch" {
			res, ext = rw, "bat"
		}
		if inP != in || res == "e" {
			return fail()
		}
		files[filepath.Join(outP, name+"."+ext)] = unhx(res[1:])
	}
	return tshObs(0, files)
}

func tshObs(exit int, files map[string]string) string {
	keys := []string{}
	for k := range files {
		keys = append(keys, k)
	}
	sort.Strings(keys)
	parts := []string{}
	for _, k := range keys {
		parts = append(parts, hx(k)+":"+hx(files[k]))
	}
	return fmt.Sprintf("exit=%d %s", exit, strings.Join(parts, ","))
}

// runTsh executes the real binary (built from /repo next to the harness) in a scratch directory.
func runTsh(f []string) string {
	exe, _ := os.Executable()
	bin := filepath.Join(filepath.Dir(exe), "tsh")
	dir, _ := os.MkdirTemp("", "tshrun")
	defer os.RemoveAll(dir)
	for _, e := range strings.Split(f[3], ",") {
		if e == "" {
			continue
		}
		if e[0] == 'd' {
			os.MkdirAll(filepath.Join(dir, unhx(e[1:])), 0755)
		} else {
			p := strings.SplitN(e[1:], ".", 2)
			path := filepath.Join(dir, unhx(p[0]))
			os.MkdirAll(filepath.Dir(path), 0755)
			os.WriteFile(path, []byte(unhx(p[1])), 0644)
		}
	}
	args := []string{}
	if f[2] != "" {
		for _, a := range strings.Split(f[2], ",") {
			args = append(args, unhx(a))
		}
	}
	cmd := exec.Command(bin, args...)
	cmd.Dir = dir
	err := cmd.Run()
	exit := 0
	if err != nil {
		exit = 1
	}
	files := map[string]string{}
	filepath.Walk(dir, func(p string, info os.FileInfo, err error) error {
		if err == nil && !info.IsDir() {
			rel, _ := filepath.Rel(dir, p)
			b, _ := os.ReadFile(p)
			files[rel] = string(b)
		}
		return nil
	})
	return tshObs(exit, files)
}
