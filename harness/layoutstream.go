package main

import (
	"fmt"
	"math/rand"
	"strings"
)

// relayout produces a token-preserving re-layout of src: only blanks, comments, blank or comment-only
// lines at existing line breaks, line-end style, indentation and the final newline change.
func relayout(r *rand.Rand, src string) (string, []string) {
	toks := fuzzTokRe.FindAllString(src, -1)
	ops := []string{}
	var b strings.Builder
	verbatimTail := false
	for i, t := range toks {
		if (t == "/" && i+1 < len(toks) && toks[i+1] == "*") || t == "\"" || t == "`" {
			verbatimTail = true
		}
	}
	crlf := !verbatimTail && r.Intn(3) == 0
	if crlf {
		ops = append(ops, "crlf")
	}
	isSpace := func(t string) bool { return strings.TrimSpace(t) == "" }
	punct := func(t string) bool {
		return len(t) > 0 && strings.ContainsAny(t[:1], "()[]{},;:=!<>&|+*/%@.") && !strings.HasPrefix(t, "//") && !strings.HasPrefix(t, "/*")
	}
	for i, t := range toks {
		// an unterminated comment or string literal swallows the rest of the file: everything behind its opener is inside
		// one token, so nothing may change there (an inserted block comment would close an open comment)
		if (t == "/" && i+1 < len(toks) && toks[i+1] == "*") || t == "\"" || t == "`" {
			b.WriteString(strings.Join(toks[i:], ""))
			verbatimTail = true
			break
		}
		if isSpace(t) {
			if strings.Contains(t, "\n") {
				// an existing line break: keep it, maybe add blank / comment-only lines and new indentation
				nl := strings.Count(t, "\n")
				out := ""
				if r.Intn(3) == 0 {
					out += []string{" ", "\t", "  "}[r.Intn(3)] // trailing blanks
					ops = append(ops, "trailing-blank")
				}
				for k := 0; k < nl; k++ {
					out += "\n"
				}
				switch r.Intn(6) {
				case 0:
					out += "\n"
					ops = append(ops, "blank-line")
				case 1:
					out += "  //" + lineCommentBodies[r.Intn(len(lineCommentBodies))] + "\n"
					ops = append(ops, "comment-line")
				case 2:
					out += "\t/*" + blockCommentBodies[r.Intn(len(blockCommentBodies))] + "*/\n \n"
					ops = append(ops, "block-comment-line")
				}
				out += []string{"", "\t", "    ", "\t\t "}[r.Intn(4)]
				b.WriteString(out)
			} else {
				b.WriteString([]string{" ", "  ", "\t", " /*" + inlineCommentBodies[r.Intn(len(inlineCommentBodies))] + "*/ "}[r.Intn(4)])
			}
			continue
		}
		b.WriteString(t)
		// optional blanks / comments between two adjacent non-space tokens, around punctuation only
		if i+1 < len(toks) && !isSpace(toks[i+1]) && (punct(t) || punct(toks[i+1])) && !strings.HasPrefix(t, "//") {
			next := toks[i+1]
			// never split a two-character operator the tokenizer here did not see, never glue '-' to a digit
			// ... nor create or destroy a comment opener: nothing between "/" or "*" and a following "/" or "*", no comment glued to a "/"
			slashy := (strings.HasSuffix(t, "/") || strings.HasSuffix(t, "*")) && (strings.HasPrefix(next, "/") || strings.HasPrefix(next, "*"))
			if !(strings.ContainsAny(t, "=!<>&|+-*/%:") && strings.ContainsAny(next[:1], "=&|+-")) && !slashy && r.Intn(3) == 0 {
				body := inlineCommentBodies[r.Intn(len(inlineCommentBodies))]
				choices := []string{" ", "\t", "/*" + body + "*/", " /*" + body + "*/"}
				if strings.HasSuffix(t, "/") {
					choices = []string{" ", "\t", " /*" + body + "*/"}
				}
				b.WriteString(choices[r.Intn(len(choices))])
				ops = append(ops, "blank-around-punct")
			}
		}
	}
	out := b.String()
	k := r.Intn(3)
	if verbatimTail {
		k = 2
	}
	switch k {
	case 0:
		out = strings.TrimRight(out, " \t\n")
		ops = append(ops, "no-final-newline")
	case 1:
		out = strings.TrimRight(out, " \t\n") + "\n"
	}
	if r.Intn(4) == 0 {
		out = "\n\n// leading comment\n" + out
		ops = append(ops, "leading-lines")
	}
	if crlf {
		out = strings.ReplaceAll(out, "\n", "\r\n")
	}
	return out, ops
}

// what stands inside the inserted comments: plain text, nothing, look-alikes of comment delimiters, program text
var inlineCommentBodies = []string{" c ", "", " x ", "/ x = 2 /", "*", "**", "/", " a * / b ", " // not a line comment ", " /* no nesting ", " \"q ", " `"}
var blockCommentBodies = append([]string{" block ", " several\n lines\n\t", "\n", "/\nx = 2\n/"}, inlineCommentBodies...)
var lineCommentBodies = []string{" only a comment", "", "/", "/ three slashes", " /* not a block comment", " x */ y", "* /", " print(1)", " \"", " `"}

// layoutBases: programs whose layout is varied (accepted and rejected ones)
func layoutBases(r *rand.Rand, n int) []string {
	base := suitePrograms()
	out := []string{}
	for i := 0; i < n; i++ {
		src := base[r.Intn(len(base))]
		if r.Intn(5) == 0 {
			src = mutateSource(r, src, 1) // also rejected programs must stay rejected
		}
		out = append(out, src)
	}
	for _, g := range extraLayoutBases {
		out = append(out, g)
	}
	return out
}

var extraLayoutBases = []string{
	"usage := `usage: prog\n  -a  all\n  -b  both`\nprint(usage)\nprint(len(usage))\n",
	"msg := \"line one\nline two\"\nfunc show(s string) string {\n\treturn s + `\n<end>`\n}\nprint(show(msg))\n",
	"import (\n\t\"strings\"\n)\nswitch 2 {\ncase 1:\n\tprint(\"a\")\ncase 2:\n\tprint(strings.Contains(\"ab\", \"b\"))\ndefault:\n\tprint(\"c\")\n}\n",
	"import \"strings\"\nfunc f(a int, b int) (int, int) {\n\treturn a + b, a * b\n}\nx, y := f(2, 3)\nif x > y {\n\tprint(x)\n} else if x == y {\n\tprint(0)\n} else {\n\tprint(y, strings.Repeat(\"a\", 2))\n}\n",
	"s := []int{1, 2, 3}\nfor i, v := range s {\n\tif v == 2 {\n\t\tcontinue\n\t}\n\tprint(i, v)\n}\nfor i := 0; i < 2; i++ {\n\tswitch {\n\tcase i == 0:\n\t\tprint(\"zero\")\n\tdefault:\n\t\tprint(\"more\")\n\t}\n}\n",
}

func init() {
	streams["layout"] = func(r *rand.Rand, n int, g *genOut) {
		opCount := map[string]int{}
		bases := layoutBases(r, n)
		for gi, src := range bases {
			std := strings.Contains(src, "import")
			f := progFields("main.tsh", map[string]string{"main.tsh": src}, std)
			id := fmt.Sprintf("%d#g%d.v0", g.n, gi)
			fmt.Fprintf(g.cases, "emit %s %s\n", id, strings.Join(f, " "))
			g.n++
			for v := 1; v <= 7; v++ {
				out, ops := relayout(r, src)
				for _, o := range ops {
					opCount[o]++
				}
				f := progFields("main.tsh", map[string]string{"main.tsh": out}, std)
				id := fmt.Sprintf("%d#g%d.v%d", g.n, gi, v)
				fmt.Fprintf(g.cases, "emit %s %s\n", id, strings.Join(f, " "))
				g.n++
			}
		}
		// the recorded finding: an optional blank before a negative-looking literal changes acceptance
		for _, pair := range [][2]string{{"a := 5\nb := a - 1\nprint(b)\n", "a := 5\nb := a-1\nprint(b)\n"}} {
			for v, src := range pair {
				f := progFields("main.tsh", map[string]string{"main.tsh": src}, false)
				fmt.Fprintf(g.cases, "emit %d#gminus.v%d#minus-digit %s\n", g.n, v, strings.Join(f, " "))
				g.n++
			}
		}
		g.meta["layout_groups"] = len(bases)
		g.meta["layout_ops"] = opCount
	}
}
