package main

// proggen: type-directed random generator of TypeShell programs (GenProgram) and its self-test
// (genSelfTest).  In Safe mode every program is accepted, terminates and has defined behaviour by
// construction: the generator keeps, next to the language's scopes, static facts about every
// variable (bounds of integers, minimal/maximal lengths of strings and slices, locks of loop
// variables and of ranged operands) and a static bound of how often every position is executed.
//
// Feature keys: if elseif else switch switch_notag switch_true case default empty_case for3 for3_noinit
// for3_noinc for3_len forcond forever range_slice range_string range_index_only break continue nest3
// func func_noparens call call_stmt call_as_arg multi_return multi_assign def_call return_nested
// print print_in_func global_write_in_func panic def_var def_var_init def_var_infer def_short
// def_var_multi def_var_multi_init def_short_multi assign assign_multi swap compound compound_str
// incdec slice_lit slice_alias slice_set slice_grow copy index subscript concat itoa and or not
// logical_mix cmp_chain neg_literal minus_minus name_reuse mutated_invalid.
// Hand-written shapes (Safe mode, about every tenth program each, at most two per program):
// multi_rhs_ref multi_nested_call empty_branch_mid slice_in_loop big_copy same_cond_chain
// else_only_if call_stmt_nested len_pair loop_calls_loopfn many_params.

import (
	"fmt"
	"math/rand"
	"os"
	"os/exec"
	"path/filepath"
	"regexp"
	"sort"
	"strings"
	"time"
)

// GenOpts selects the language features a generated program may use.
type GenOpts struct {
	Funcs    bool // top-level functions and calls
	Slices   bool // []int / []bool / []string
	Strings  bool // string operations
	Effects  bool // value-returning functions with side effects at operand positions
	Safe     bool // accepted, terminating, defined behaviour
	MaxDepth int  // nesting depth of blocks (2..5)
	MaxStmts int  // statements per block (1..6)
}

type pgTy int

const (
	pgInt pgTy = iota
	pgBool
	pgStr
	pgSInt
	pgSBool
	pgSStr
)

func (t pgTy) isSlice() bool { return t >= pgSInt }
func (t pgTy) elem() pgTy {
	if t.isSlice() {
		return t - pgSInt
	}
	return t
}
func (t pgTy) sliceOf() pgTy { return t.elem() + pgSInt }
func (t pgTy) String() string {
	return [...]string{"int", "bool", "string", "[]int", "[]bool", "[]string"}[t]
}

const (
	pgVMax    = 100000 // bound of every integer value and intermediate result
	pgEMax    = 1000   // bound of the elements of []int
	pgSMax    = 40     // maximal string length
	pgLit0Max = 4      // maximal length of a slice literal
	pgKMax    = 6      // literal growth indices are below this
	pgGrowMax = 4      // program-wide budget of executions of s[len(s)] = v
	pgLMax    = pgKMax + pgGrowMax
	pgMultMax = 40  // bound of executions of one position
	pgWorkMax = 380 // bound of executed simple statements per program
)

// pgSym is a variable together with the static facts the Safe mode relies on.
type pgSym struct {
	name   string
	ty     pgTy
	global bool
	ro     int // > 0: must not be written (loop counter, range variable, ranged operand)
	// int: |v| <= hi always; plain writes fit abs; cur/fac account relative writes ((cur)*fac <= hi).
	// string: the same for the length (fac unused).
	abs, hi, cur, fac int
	cnt               bool // int with exact range [lo, chi], lo >= 0
	lo, chi           int
	minLen            int    // string / slice: guaranteed minimal length
	dirty             bool   // string that may carry leading/trailing/double blanks (never stored in a []string)
	defMult           int    // multiplicity of the defining position
	idxOf             *pgSym // index variable that is in range for this string / slice
	hidden            bool   // reserved name of a hand-written fragment, never picked by the generic machinery
	fnReassigned      bool   // global slice or string reassigned inside a function: minLen is never raised
}

type pgRet struct {
	ty          pgTy
	abs, minLen int // int: bound; string: abs = maximal length
}

type pgFunc struct {
	name    string
	params  []*pgSym
	rets    []pgRet
	budget  int // remaining static number of calls
	called  int
	cost    int // bound of simple statements executed by one call
	effects bool
	writes  map[*pgSym]bool // globals written (transitively)
	grows   [3]bool         // may resize a slice of the element type (transitively)
}

type pgExpr struct {
	s      string
	prec   int // 1 ||, 2 &&, 3 comparison, 4 + -, 5 * / %, 6 primary
	bnd    int // int: |v| <= bnd; string: maximal length
	minLen int // string / slice
	dirty  bool
	eff    bool // contains a call with side effects
	call   bool // contains a call
	and    bool // unparenthesised && at the top
}

// pgCtx describes the position a statement or expression is generated for.
type pgCtx struct {
	depth  int
	mult   int
	nest   int // number of enclosing constructs
	inLoop bool
	brk    bool // break allowed (the nearest enclosing loop or switch is a loop)
	cont   bool // continue allowed
	pure   bool // expressions must not contain calls with side effects
	nocall bool
}

type pgGen struct {
	r        *rand.Rand
	o        GenOpts
	feat     map[string]int
	scopes   [][]*pgSym
	funcs    []*pgFunc
	fn       *pgFunc // function whose body is generated
	fnRets   []pgRet
	out      []string
	used     map[string]int // definitions per identifier so far
	work     int
	grow     int    // used part of pgGrowMax
	rngLock  [3]int // active range loops per slice element type
	mutate   int    // countdown to the one invalid statement (unsafe programs), -1: none
	fnames   int
	fnTaken  map[string]bool
	fnPure   bool // the function being generated must not have side effects
	fnBase   int  // declared number of calls of the function being generated
	raises   []pgRaise
	lineMax  int  // no new constructs beyond this number of lines
	nestWant bool // callText: make an argument a call if possible
	nestGot  bool
	force    bool // maxIter ignores the line budget (while a hand-written shape is emitted)
}

var pgNames = []string{"a", "b", "c", "i", "j", "k", "n", "m", "s", "t", "u", "v", "x", "y", "z",
	"acc", "tmp", "idx", "cnt", "p", "q", "w", "res", "val", "sum", "ok", "str", "buf", "cur", "top"}
var pgFuncNames = []string{"f", "g", "h", "calc", "step", "mk", "upd", "get", "put", "fold", "pick", "emit"}

func (g *pgGen) f(k string)    { g.feat[k]++ }
func (g *pgGen) rn(n int) int  { return g.r.Intn(n) }
func (g *pgGen) p(pc int) bool { return g.r.Intn(100) < pc }
func (g *pgGen) line(ind int, s string) {
	g.out = append(g.out, strings.Repeat("\t", ind)+s)
}
func (g *pgGen) ind(c pgCtx) int {
	if g.fn != nil {
		return c.depth + 1
	}
	return c.depth
}

// ---- scopes ----

func (g *pgGen) push() { g.scopes = append(g.scopes, nil) }
func (g *pgGen) pop()  { g.scopes = g.scopes[:len(g.scopes)-1] }
func (g *pgGen) lookup(n string) *pgSym {
	for i := len(g.scopes) - 1; i >= 0; i-- {
		for _, s := range g.scopes[i] {
			if s.name == n {
				return s
			}
		}
	}
	return nil
}

func (g *pgGen) visible(keep func(*pgSym) bool) []*pgSym {
	out := []*pgSym{}
	for _, fr := range g.scopes {
		for _, s := range fr {
			if !s.hidden && (keep == nil || keep(s)) {
				out = append(out, s)
			}
		}
	}
	return out
}

// fresh picks an identifier that is not visible, preferring identifiers that were already used in
// other (now invisible) scopes.
func (g *pgGen) fresh(avoid ...string) string {
	ok := func(n string) bool {
		if g.lookup(n) != nil {
			return false
		}
		for _, a := range avoid {
			if a == n {
				return false
			}
		}
		return true
	}
	cand := []string{}
	reused := []string{}
	for _, n := range pgNames {
		if ok(n) {
			cand = append(cand, n)
			if g.used[n] > 0 {
				reused = append(reused, n)
			}
		}
	}
	if len(reused) > 0 && g.p(60) {
		return reused[g.rn(len(reused))]
	}
	if len(cand) > 0 {
		return cand[g.rn(len(cand))]
	}
	for i := 1; ; i++ {
		n := fmt.Sprintf("%s%d", pgNames[g.rn(len(pgNames))], i)
		if ok(n) {
			return n
		}
	}
}

// define enters a symbol into the innermost scope.
func (g *pgGen) define(s *pgSym, c pgCtx) *pgSym {
	if g.used[s.name] > 0 {
		g.f("name_reuse")
	}
	g.used[s.name]++
	s.global = g.fn == nil && len(g.scopes) == 1
	s.defMult = c.mult
	if s.fac == 0 {
		s.fac = 1
	}
	g.scopes[len(g.scopes)-1] = append(g.scopes[len(g.scopes)-1], s)
	return s
}

// relMult is the number of executions of the position per execution of the definition of s.
func (g *pgGen) relMult(s *pgSym, c pgCtx) int {
	if s.global && g.fn != nil {
		return c.mult
	}
	m := c.mult / s.defMult
	if m < 1 {
		m = 1
	}
	return m
}

func pgMin(a, b int) int {
	if a < b {
		return a
	}
	return b
}
func pgMax(a, b int) int {
	if a > b {
		return a
	}
	return b
}
func pgAbs(a int) int {
	if a < 0 {
		return -a
	}
	return a
}
func min1(n int) int {
	if n > 0 {
		return 1
	}
	return 0
}

// ---- literals ----

const pgAlpha = "abcdfghijklmopqrstuvwxyzABCDFGHIJKLMNOPQRSTUVWXYZ0123456789_.,:+=/-" // without n, e, E: no value can be an echo option

func (g *pgGen) intLit() pgExpr {
	v := 0
	switch k := g.rn(100); {
	case k < 55:
		v = g.rn(10)
	case k < 75:
		v = 10 + g.rn(90)
	case k < 90:
		v = -1 - g.rn(9)
	default:
		v = g.rn(1000) - 200
	}
	if v < 0 {
		g.f("neg_literal")
	}
	return pgExpr{s: fmt.Sprint(v), prec: 6, bnd: pgAbs(v)}
}

// nzLit is a non-zero literal usable as divisor.
func (g *pgGen) nzLit() int {
	v := 1 + g.rn(9)
	if g.p(15) {
		v = 10 + g.rn(90)
	}
	if g.p(20) {
		g.f("neg_literal")
		v = -v
	}
	return v
}

// strText yields n bytes over the neutral alphabet with inner single blanks.
func (g *pgGen) strText(n int) string {
	b := make([]byte, n)
	for i := range b {
		b[i] = pgAlpha[g.rn(len(pgAlpha))]
		if g.p(70) {
			b[i] = pgAlpha[g.rn(24)] // mostly lower-case letters
		}
		if i > 0 && i < n-1 && b[i-1] != ' ' && g.p(12) {
			b[i] = ' '
		}
	}
	if n > 0 && b[0] == '-' {
		b[0] = 'x'
	}
	return string(b)
}

func (g *pgGen) strLit(minL, maxL int) pgExpr {
	n := minL
	if maxL > minL {
		n += g.rn(pgMin(maxL-minL, 5) + 1)
	}
	t := g.strText(n)
	if !g.o.Safe && g.p(8) {
		t += []string{"$x", "*", "  ", "\\n", "\\t", "'", "-n", "\\\\"}[g.rn(8)]
		return pgExpr{s: `"` + t + `"`, prec: 6, bnd: len(t), dirty: true}
	}
	q := `"`
	if g.p(25) {
		q = "`"
	}
	return pgExpr{s: q + t + q, prec: 6, bnd: n, minLen: n}
}

// ---- expression plumbing ----

func pgParen(e pgExpr) pgExpr {
	e.s, e.prec, e.and = "("+e.s+")", 6, false
	return e
}

// bin renders l op r with the parentheses the precedences need (all operators associate to the left).
func (g *pgGen) bin(l pgExpr, op string, prec int, r pgExpr) pgExpr {
	if l.prec < prec || (l.prec < 6 && g.p(8)) {
		l = pgParen(l)
	}
	if r.prec <= prec || (r.prec < 6 && g.p(8)) {
		r = pgParen(r)
	}
	return pgExpr{s: l.s + " " + op + " " + r.s, prec: prec, eff: l.eff || r.eff, call: l.call || r.call}
}

// fit makes |e| <= limit by a remainder operation if the static bound does not already say so.
func (g *pgGen) fit(e pgExpr, limit int) pgExpr {
	if e.bnd <= limit {
		return e
	}
	if limit < 1 {
		return pgExpr{s: "0", prec: 6}
	}
	m := limit + 1
	if m > 10 && g.p(60) {
		m = []int{10, 7, 100, 13, 1000, 50}[g.rn(6)]
		if m > limit+1 {
			m = limit + 1
		}
	}
	r := g.bin(e, "%", 5, pgExpr{s: fmt.Sprint(m), prec: 6})
	r.bnd = m - 1
	return r
}

func (g *pgGen) symsOf(ty pgTy, keep func(*pgSym) bool) []*pgSym {
	return g.visible(func(s *pgSym) bool { return s.ty == ty && (keep == nil || keep(s)) })
}

func (g *pgGen) pick(l []*pgSym) *pgSym {
	if len(l) == 0 {
		return nil
	}
	// prefer recently defined variables a little
	if len(l) > 2 && g.p(40) {
		return l[len(l)-1-g.rn(2)]
	}
	return l[g.rn(len(l))]
}

func (g *pgGen) intBound(s *pgSym) int {
	if s.cnt {
		return s.chi
	}
	return s.hi
}

// safeIdx yields an index expression that is in range for the string or slice variable s.
func (g *pgGen) safeIdx(s *pgSym, c pgCtx) (pgExpr, bool) {
	if !g.o.Safe && g.p(15) {
		if g.p(50) {
			return pgExpr{s: fmt.Sprint(g.rn(7)), prec: 6, bnd: 6}, true
		}
		return g.genInt(c, 1), true
	}
	L := s.minLen
	opts := []pgExpr{}
	for _, v := range g.symsOf(pgInt, func(v *pgSym) bool { return v.idxOf == s || (v.cnt && v.chi < L) }) {
		e := pgExpr{s: v.name, prec: 6, bnd: L}
		opts = append(opts, e, e)
	}
	if L >= 1 {
		opts = append(opts, pgExpr{s: fmt.Sprint(g.rn(L)), prec: 6, bnd: L})
		if g.p(30) {
			opts = append(opts, pgExpr{s: "len(" + s.name + ") - 1", prec: 4, bnd: pgLMax + pgSMax})
		}
	}
	if L >= 2 {
		for _, v := range g.symsOf(pgInt, func(v *pgSym) bool { return v.cnt && v.chi >= L }) {
			t := v.name
			if g.p(40) {
				t = "(" + v.name + " + " + fmt.Sprint(1+g.rn(3)) + ")"
			}
			opts = append(opts, pgExpr{s: t + " % " + fmt.Sprint(L), prec: 5, bnd: L})
		}
		if g.p(10) {
			e := g.genInt(c, 1)
			m := fmt.Sprint(L)
			in := g.bin(g.bin(e, "%", 5, pgExpr{s: m, prec: 6}), "+", 4, pgExpr{s: m, prec: 6})
			o := g.bin(in, "%", 5, pgExpr{s: m, prec: 6})
			o.bnd = L
			opts = append(opts, o)
		}
	}
	if len(opts) == 0 {
		return pgExpr{}, false
	}
	return opts[g.rn(len(opts))], true
}

// indexable lists the visible variables of type ty that can be subscripted safely here.
func (g *pgGen) indexable(ty pgTy) []*pgSym {
	return g.symsOf(ty, func(s *pgSym) bool {
		if s.minLen > 0 || !g.o.Safe {
			return true
		}
		return len(g.symsOf(pgInt, func(v *pgSym) bool { return v.idxOf == s })) > 0
	})
}

// ---- calls ----

func (g *pgGen) canCall(fn *pgFunc, c pgCtx) bool {
	if c.nocall || fn.budget < c.mult || (c.pure && fn.effects) {
		return false
	}
	if g.fn != nil && g.fnPure && fn.effects {
		return false
	}
	if g.costOf(c, fn.cost)+g.work > pgWorkMax && g.p(90) {
		return false
	}
	for s := range fn.writes {
		if s.ro > 0 {
			return false
		}
	}
	for t := 0; t < 3; t++ {
		if fn.grows[t] && g.rngLock[t] > 0 {
			return false
		}
	}
	return true
}

// costOf is the work of n simple statements at position c (relative to one call inside functions).
func (g *pgGen) costOf(c pgCtx, n int) int {
	if g.fn != nil {
		return n * pgMax(1, c.mult/g.fnBase)
	}
	return n * c.mult
}

func (g *pgGen) tick(c pgCtx, n int) {
	w := g.costOf(c, n)
	if g.fn != nil {
		g.fn.cost += w
	} else {
		g.work += w
	}
}

func (g *pgGen) callable(c pgCtx, want func(*pgFunc) bool) []*pgFunc {
	out := []*pgFunc{}
	for _, fn := range g.funcs {
		if want(fn) && g.canCall(fn, c) {
			out = append(out, fn)
		}
	}
	return out
}

// callText renders a call of fn with well-typed arguments and does the bookkeeping.
func (g *pgGen) callText(fn *pgFunc, c pgCtx) pgExpr {
	fn.budget -= c.mult
	fn.called++
	g.tick(c, fn.cost)
	if g.fn != nil {
		g.fn.effects = g.fn.effects || fn.effects
		for s := range fn.writes {
			g.fn.writes[s] = true
		}
		for t := 0; t < 3; t++ {
			g.fn.grows[t] = g.fn.grows[t] || fn.grows[t]
		}
	}
	g.f("call")
	args := []string{}
	eff := fn.effects
	ca := c
	ca.pure = c.pure
	for _, pa := range fn.params {
		var a pgExpr
		nested, isCall := pgExpr{}, false
		if g.p(30) || (g.nestWant && !g.nestGot) {
			nested, isCall = g.callOf(pa.ty, ca, pa.minLen)
			if isCall && pa.ty == pgStr && g.o.Safe && nested.bnd > pa.abs {
				isCall = false // accounted but unused, which is only conservative
			}
			g.nestGot = g.nestGot || isCall
		}
		switch {
		case isCall && pa.ty == pgInt:
			a = g.fit(nested, pa.abs)
		case isCall && (pa.ty != pgStr || !g.o.Safe || nested.bnd <= pa.abs):
			a = nested
		case pa.ty == pgInt:
			a = g.fit(g.genInt(ca, 1), pa.abs)
		case pa.ty == pgBool:
			a = g.genBool(ca, 1)
		case pa.ty == pgStr:
			a = g.genStrC(ca, 1, pa.minLen, pa.abs, true)
		default:
			a = g.genSlice(pa.ty, ca, pa.minLen)
		}
		if a.call {
			g.f("call_as_arg")
		}
		eff = eff || a.eff
		args = append(args, a.s)
	}
	return pgExpr{s: fn.name + "(" + strings.Join(args, ", ") + ")", prec: 6, eff: eff, call: true}
}

// callOf yields a call of a function with the single return type ty, if one can be called here.
func (g *pgGen) callOf(ty pgTy, c pgCtx, minLen int) (pgExpr, bool) {
	l := g.callable(c, func(fn *pgFunc) bool {
		return len(fn.rets) == 1 && fn.rets[0].ty == ty && fn.rets[0].minLen >= minLen
	})
	if len(l) == 0 {
		return pgExpr{}, false
	}
	fn := l[g.rn(len(l))]
	e := g.callText(fn, c)
	e.bnd, e.minLen = fn.rets[0].abs, fn.rets[0].minLen
	return e, true
}

// ---- typed expressions ----

func (g *pgGen) intLeaf(c pgCtx) pgExpr {
	for try := 0; try < 4; try++ {
		switch k := g.rn(100); {
		case k < 30:
			return g.intLit()
		case k < 65:
			if v := g.pick(g.symsOf(pgInt, nil)); v != nil {
				return pgExpr{s: v.name, prec: 6, bnd: g.intBound(v)}
			}
		case k < 75:
			tys := []pgTy{}
			if g.o.Strings {
				tys = append(tys, pgStr)
			}
			if g.o.Slices {
				tys = append(tys, pgSInt, pgSBool, pgSStr)
			}
			if len(tys) == 0 {
				continue
			}
			ty := tys[g.rn(len(tys))]
			if v := g.pick(g.symsOf(ty, nil)); v != nil {
				b := pgLMax
				if ty == pgStr {
					b = v.hi
				}
				return pgExpr{s: "len(" + v.name + ")", prec: 6, bnd: b}
			}
			if ty == pgStr && g.p(50) {
				e := g.genStr(c, 1, false)
				return pgExpr{s: "len(" + e.s + ")", prec: 6, bnd: e.bnd, eff: e.eff, call: e.call}
			}
		case k < 87:
			if !g.o.Slices {
				continue
			}
			if v := g.pick(g.indexable(pgSInt)); v != nil {
				if i, ok := g.safeIdx(v, c); ok {
					g.f("index")
					return pgExpr{s: v.name + "[" + i.s + "]", prec: 6, bnd: pgEMax, eff: i.eff, call: i.call}
				}
			}
		default:
			if e, ok := g.callOf(pgInt, c, 0); ok {
				return e
			}
		}
	}
	return g.intLit()
}

func (g *pgGen) genInt(c pgCtx, d int) pgExpr {
	if d <= 0 || g.p(35) {
		return g.intLeaf(c)
	}
	l := g.genInt(c, d-1)
	var e pgExpr
	switch k := g.rn(100); {
	case k < 30:
		r := g.genInt(c, d-1)
		e = g.bin(l, "+", 4, r)
		e.bnd = l.bnd + r.bnd
	case k < 55:
		r := g.genInt(c, d-1)
		if strings.HasPrefix(r.s, "-") {
			g.f("minus_minus")
		}
		e = g.bin(l, "-", 4, r)
		e.bnd = l.bnd + r.bnd
	case k < 75:
		r := g.genInt(c, d-1)
		if l.bnd*r.bnd > pgVMax {
			l = g.fit(l, 300)
			r = g.fit(r, 300)
		}
		e = g.bin(l, "*", 5, r)
		e.bnd = l.bnd * r.bnd
	default:
		op := "/"
		if g.p(50) {
			op = "%"
		}
		if !g.o.Safe && g.p(25) {
			r := g.genInt(c, d-1)
			e = g.bin(l, op, 5, r)
			e.bnd = l.bnd
			break
		}
		dv := g.nzLit()
		e = g.bin(l, op, 5, pgExpr{s: fmt.Sprint(dv), prec: 6})
		e.bnd = l.bnd
		if op == "%" {
			e.bnd = pgMin(l.bnd, pgAbs(dv)-1)
		}
	}
	if e.bnd > pgVMax {
		e = g.fit(e, pgVMax) // unreachable for + and - of fitted operands, kept as a guard
	}
	if e.bnd > pgVMax/2 {
		e = g.fit(e, 1000)
	}
	return e
}

var pgCmpOps = []string{"==", "!=", "<", "<=", ">", ">="}

func (g *pgGen) boolLeaf(c pgCtx, d int) pgExpr {
	for try := 0; try < 4; try++ {
		switch k := g.rn(100); {
		case k < 8:
			return pgExpr{s: []string{"true", "false"}[g.rn(2)], prec: 6}
		case k < 25:
			if v := g.pick(g.symsOf(pgBool, nil)); v != nil {
				return pgExpr{s: v.name, prec: 6}
			}
		case k < 70:
			l, r := g.genInt(c, d), g.genInt(c, d)
			return g.bin(l, pgCmpOps[g.rn(6)], 3, r)
		case k < 78:
			if !g.o.Strings {
				continue
			}
			l, r := g.genStr(c, d, false), g.genStr(c, d, false)
			return g.bin(l, pgCmpOps[g.rn(2)], 3, r)
		case k < 84:
			// comparison of booleans, also as an unparenthesised chain: a < b == true
			l, r := g.boolLeaf(c, 0), g.boolLeaf(c, 0)
			if l.prec < 3 {
				l = pgParen(l)
			}
			if l.prec == 3 {
				g.f("cmp_chain")
			}
			return g.bin(l, pgCmpOps[g.rn(2)], 3, r)
		case k < 90:
			if !g.o.Slices {
				continue
			}
			if v := g.pick(g.indexable(pgSBool)); v != nil {
				if i, ok := g.safeIdx(v, c); ok {
					g.f("index")
					return pgExpr{s: v.name + "[" + i.s + "]", prec: 6, eff: i.eff, call: i.call}
				}
			}
		case k < 95:
			e := g.boolLeaf(c, 0)
			if e.prec < 6 || strings.HasPrefix(e.s, "!") {
				e = pgParen(e)
			}
			g.f("not")
			e.s = "!" + e.s
			return e
		default:
			if e, ok := g.callOf(pgBool, c, 0); ok {
				return e
			}
		}
	}
	return g.bin(g.intLeaf(c), pgCmpOps[g.rn(6)], 3, g.intLit())
}

func (g *pgGen) genBool(c pgCtx, d int) pgExpr {
	if d <= 0 || g.p(55) {
		return g.boolLeaf(c, pgMin(d, 1))
	}
	l, r := g.genBool(c, d-1), g.genBool(c, d-1)
	if g.p(50) {
		e := g.bin(l, "&&", 2, r)
		e.and = true
		g.f("and")
		return e
	}
	e := g.bin(l, "||", 1, r)
	g.f("or")
	if strings.Contains(e.s, "&&") && (l.and && strings.HasPrefix(e.s, l.s) || r.and && strings.HasSuffix(e.s, r.s)) {
		g.f("logical_mix")
	}
	return e
}

// genCond yields a condition that usually depends on a variable, so that both outcomes occur at run time.
func (g *pgGen) genCond(c pgCtx) pgExpr {
	vars := g.symsOf(pgInt, nil)
	if len(vars) == 0 || g.p(45) {
		return g.genBool(c, 2)
	}
	v := g.pick(vars)
	if cn := g.symsOf(pgInt, func(s *pgSym) bool { return s.cnt }); len(cn) > 0 && g.p(60) {
		v = cn[len(cn)-1-g.rn(pgMin(2, len(cn)))]
	}
	ve := pgExpr{s: v.name, prec: 6, bnd: g.intBound(v)}
	var e pgExpr
	switch k := g.rn(100); {
	case k < 40:
		m := 2 + g.rn(3)
		e = g.bin(g.bin(ve, "%", 5, pgExpr{s: fmt.Sprint(m), prec: 6}), pgCmpOps[g.rn(2)], 3, pgExpr{s: fmt.Sprint(g.rn(m)), prec: 6})
	case k < 75 && v.cnt:
		e = g.bin(ve, pgCmpOps[2+g.rn(4)], 3, pgExpr{s: fmt.Sprint(v.lo + g.rn(pgMax(1, v.chi-v.lo+1))), prec: 6})
	default:
		e = g.bin(ve, pgCmpOps[g.rn(6)], 3, g.genInt(c, 1))
	}
	if g.p(30) {
		r := g.genBool(c, 1)
		if g.p(50) {
			e = g.bin(e, "&&", 2, r)
			g.f("and")
		} else {
			e = g.bin(e, "||", 1, r)
			g.f("or")
			if r.and && strings.HasSuffix(e.s, r.s) {
				g.f("logical_mix")
			}
		}
	}
	return e
}

const pgElemStrMax = 8 // maximal length of the elements of []string

func (g *pgGen) strLeaf(c pgCtx, clean bool) pgExpr {
	for try := 0; try < 4; try++ {
		switch k := g.rn(100); {
		case k < 35:
			return g.strLit(0, 6)
		case k < 60:
			if v := g.pick(g.symsOf(pgStr, func(s *pgSym) bool { return !clean || !s.dirty })); v != nil {
				return pgExpr{s: v.name, prec: 6, bnd: v.hi, minLen: v.minLen, dirty: v.dirty}
			}
		case k < 70:
			if !g.o.Strings {
				continue
			}
			e := g.genInt(c, 1)
			g.f("itoa")
			return pgExpr{s: "itoa(" + e.s + ")", prec: 6, bnd: 7, minLen: 1, eff: e.eff, call: e.call}
		case k < 85:
			if !g.o.Strings || clean {
				continue
			}
			if v := g.pick(g.indexable(pgStr)); v != nil {
				if e, ok := g.subscript(v, c); ok {
					return e
				}
			}
		case k < 93:
			if !g.o.Slices {
				continue
			}
			if v := g.pick(g.indexable(pgSStr)); v != nil {
				if i, ok := g.safeIdx(v, c); ok {
					g.f("index")
					return pgExpr{s: v.name + "[" + i.s + "]", prec: 6, bnd: pgElemStrMax, eff: i.eff, call: i.call, dirty: !g.o.Safe}
				}
			}
		default:
			if e, ok := g.callOf(pgStr, c, 0); ok {
				return e
			}
		}
	}
	return g.strLit(0, 6)
}

// subscript yields s[i], s[a:b], s[:b], s[a:] or s[:] of the string variable v with indices in range.
func (g *pgGen) subscript(v *pgSym, c pgCtx) (pgExpr, bool) {
	L := v.minLen
	g.f("subscript")
	lit := func(n int) string { return fmt.Sprint(n) }
	switch k := g.rn(100); {
	case k < 35:
		i, ok := g.safeIdx(v, c)
		if !ok {
			break
		}
		return pgExpr{s: v.name + "[" + i.s + "]", prec: 6, bnd: 1, minLen: 1, dirty: true, eff: i.eff, call: i.call}, true
	case k < 55:
		b := g.rn(L + 1)
		a := g.rn(b + 1)
		return pgExpr{s: v.name + "[" + lit(a) + ":" + lit(b) + "]", prec: 6, bnd: b - a, minLen: b - a, dirty: true}, true
	case k < 68:
		b := g.rn(L + 1)
		return pgExpr{s: v.name + "[:" + lit(b) + "]", prec: 6, bnd: b, minLen: b, dirty: true}, true
	case k < 81:
		a := g.rn(L + 1)
		return pgExpr{s: v.name + "[" + lit(a) + ":]", prec: 6, bnd: v.hi - a, minLen: L - a, dirty: true}, true
	case k < 87:
		return pgExpr{s: v.name + "[:]", prec: 6, bnd: v.hi, minLen: L, dirty: true}, true
	case k < 94:
		i, ok := g.safeIdx(v, c)
		if !ok {
			break
		}
		if g.p(50) {
			return pgExpr{s: v.name + "[" + i.s + ":]", prec: 6, bnd: v.hi, minLen: 1, dirty: true, eff: i.eff, call: i.call}, true
		}
		return pgExpr{s: v.name + "[:" + i.s + "]", prec: 6, bnd: v.hi, dirty: true, eff: i.eff, call: i.call}, true
	default:
		if L >= 1 {
			return pgExpr{s: v.name + "[:len(" + v.name + ") - 1]", prec: 6, bnd: v.hi - 1, minLen: L - 1, dirty: true}, true
		}
	}
	g.feat["subscript"]--
	return pgExpr{}, false
}

func (g *pgGen) genStr(c pgCtx, d int, clean bool) pgExpr {
	if d <= 0 || g.p(55) || !g.o.Strings {
		return g.strLeaf(c, clean)
	}
	l, r := g.genStr(c, d-1, clean), g.genStr(c, d-1, clean)
	if l.bnd+r.bnd > pgSMax {
		return l
	}
	e := g.bin(l, "+", 4, r)
	e.bnd, e.minLen, e.dirty = l.bnd+r.bnd, l.minLen+r.minLen, l.dirty || r.dirty
	g.f("concat")
	return e
}

// genStrC yields a string expression with minL <= length <= maxL (statically).
func (g *pgGen) genStrC(c pgCtx, d int, minL, maxL int, clean bool) pgExpr {
	for try := 0; try < 3; try++ {
		e := g.genStr(c, d, clean)
		if !g.o.Safe || (e.minLen >= minL && e.bnd <= maxL && !(clean && e.dirty)) {
			return e
		}
		// calls made for a rejected candidate stay accounted, which is only conservative
		if e.call {
			break
		}
	}
	return g.strLit(minL, pgMax(minL, pgMin(maxL, minL+4)))
}

func (g *pgGen) elemExpr(ety pgTy, c pgCtx) pgExpr {
	switch ety {
	case pgInt:
		return g.fit(g.genInt(c, 1), pgEMax)
	case pgBool:
		return g.genBool(c, 1)
	}
	return g.genStrC(c, 1, 0, pgElemStrMax, true)
}

// genSlice yields a slice expression of type ty with at least minLen elements.
func (g *pgGen) genSlice(ty pgTy, c pgCtx, minLen int) pgExpr {
	k := g.rn(100)
	if k < 40 {
		if v := g.pick(g.symsOf(ty, func(s *pgSym) bool { return s.minLen >= minLen || !g.o.Safe })); v != nil {
			return pgExpr{s: v.name, prec: 6, minLen: v.minLen}
		}
	}
	if k < 50 {
		if e, ok := g.callOf(ty, c, minLen); ok {
			return e
		}
	}
	n := minLen
	if n < pgLit0Max {
		n += g.rn(pgLit0Max - n + 1)
	}
	el := []string{}
	out := pgExpr{prec: 6, minLen: n}
	for i := 0; i < n; i++ {
		e := g.elemExpr(ty.elem(), c)
		out.eff, out.call = out.eff || e.eff, out.call || e.call
		el = append(el, e.s)
	}
	out.s = ty.String() + "{" + strings.Join(el, ", ") + "}"
	g.f("slice_lit")
	return out
}

// genExpr yields an expression of any type for a definition (unconstrained).
func (g *pgGen) genExpr(ty pgTy, c pgCtx, d int) pgExpr {
	switch ty {
	case pgInt:
		return g.genInt(c, d)
	case pgBool:
		return g.genBool(c, d)
	case pgStr:
		return g.genStr(c, d, false)
	}
	return g.genSlice(ty, c, 0)
}

// ---- simple statements ----

type pgRaise struct {
	s   *pgSym
	old int
}

// writable lists the visible variables of type ty that may be written at this position.
func (g *pgGen) writable(ty pgTy) []*pgSym {
	return g.symsOf(ty, func(s *pgSym) bool {
		if s.ro > 0 {
			return false
		}
		return !(s.global && g.fn != nil && g.fnPure)
	})
}

// wrote does the bookkeeping of a write to s.
func (g *pgGen) wrote(s *pgSym) {
	if s.global && g.fn != nil {
		g.fn.writes[s] = true
		g.fn.effects = true
		g.f("global_write_in_func")
	}
}

func (g *pgGen) raise(s *pgSym, n int) {
	if n > s.minLen && !s.fnReassigned {
		g.raises = append(g.raises, pgRaise{s, s.minLen})
		s.minLen = n
	}
}

func (g *pgGen) newInt(name string, bnd int) *pgSym {
	abs := pgMax(bnd, []int{9, 99, 99, 999}[g.rn(4)])
	hi := pgMin(pgVMax, abs*(1+g.rn(3))+100+g.rn(400))
	return &pgSym{name: name, ty: pgInt, abs: abs, hi: pgMax(hi, abs), cur: abs}
}

func (g *pgGen) newStr(name string, e pgExpr) *pgSym {
	ml := e.minLen
	if g.p(30) {
		ml = g.rn(ml + 1)
	}
	abs := pgMax(e.bnd, 3+g.rn(8))
	hi := pgMin(pgSMax, abs+g.rn(14))
	return &pgSym{name: name, ty: pgStr, abs: abs, hi: hi, cur: abs, minLen: ml, dirty: e.dirty || g.p(25)}
}

func (g *pgGen) newSym(name string, ty pgTy, e pgExpr) *pgSym {
	switch ty {
	case pgInt:
		return g.newInt(name, e.bnd)
	case pgStr:
		return g.newStr(name, e)
	case pgBool:
		return &pgSym{name: name, ty: pgBool}
	}
	return &pgSym{name: name, ty: ty, minLen: e.minLen}
}

func (g *pgGen) varTypes() []pgTy {
	t := []pgTy{pgInt, pgInt, pgInt, pgBool}
	if g.o.Strings {
		t = append(t, pgStr, pgStr)
	} else {
		t = append(t, pgStr)
	}
	if g.o.Slices {
		t = append(t, pgSInt, pgSInt, pgSStr, pgSBool)
	}
	return t
}

func (g *pgGen) randTy() pgTy {
	t := g.varTypes()
	return t[g.rn(len(t))]
}

// stDef emits one of the definition forms.
func (g *pgGen) stDef(c pgCtx) bool {
	in := g.ind(c)
	// definition from a multi-value call
	if g.o.Funcs && g.p(40) {
		if l := g.callable(c, func(fn *pgFunc) bool { return len(fn.rets) >= 2 }); len(l) > 0 {
			fn := l[g.rn(len(l))]
			call := g.callText(fn, c)
			names := []string{}
			syms := []*pgSym{}
			same := true
			for _, rt := range fn.rets {
				n := g.fresh(names...)
				names = append(names, n)
				syms = append(syms, g.newSym(n, rt.ty, pgExpr{bnd: rt.abs, minLen: rt.minLen}))
				same = same && rt.ty == fn.rets[0].ty
			}
			if same && g.p(40) {
				g.line(in, "var "+strings.Join(names, ", ")+" "+fn.rets[0].ty.String()+" = "+call.s)
			} else {
				g.line(in, strings.Join(names, ", ")+" := "+call.s)
			}
			for _, s := range syms {
				g.define(s, c)
			}
			g.f("multi_assign")
			g.f("def_call")
			return true
		}
	}
	if g.p(18) {
		// two variables at once
		n1 := g.fresh()
		n2 := g.fresh(n1)
		t1 := g.randTy()
		switch g.rn(3) {
		case 0:
			g.line(in, fmt.Sprintf("var %s, %s %s", n1, n2, t1))
			g.define(g.newSym(n1, t1, pgExpr{}), c)
			g.define(g.newSym(n2, t1, pgExpr{}), c)
			g.f("def_var_multi")
		case 1:
			e1, e2 := g.genExpr(t1, c, 1), g.genExpr(t1, c, 1)
			g.line(in, fmt.Sprintf("var %s, %s %s = %s, %s", n1, n2, t1, e1.s, e2.s))
			g.define(g.newSym(n1, t1, e1), c)
			g.define(g.newSym(n2, t1, e2), c)
			g.f("def_var_multi_init")
		default:
			t2 := g.randTy()
			e1, e2 := g.genExpr(t1, c, 1), g.genExpr(t2, c, 1)
			g.line(in, fmt.Sprintf("%s, %s := %s, %s", n1, n2, e1.s, e2.s))
			g.define(g.newSym(n1, t1, e1), c)
			g.define(g.newSym(n2, t2, e2), c)
			g.f("def_short_multi")
		}
		return true
	}
	n := g.fresh()
	ty := g.randTy()
	if g.p(15) {
		g.line(in, fmt.Sprintf("var %s %s", n, ty))
		g.define(g.newSym(n, ty, pgExpr{}), c)
		g.f("def_var")
		return true
	}
	e := g.genExpr(ty, c, 2)
	if ty.isSlice() && e.prec == 6 && !strings.Contains(e.s, "{") && !e.call {
		g.f("slice_alias")
	}
	switch k := g.rn(100); {
	case k < 55:
		g.line(in, n+" := "+e.s)
		g.f("def_short")
	case k < 78:
		g.line(in, "var "+n+" = "+e.s)
		g.f("def_var_infer")
	default:
		g.line(in, fmt.Sprintf("var %s %s = %s", n, ty, e.s))
		g.f("def_var_init")
	}
	g.define(g.newSym(n, ty, e), c)
	return true
}

// assignValue yields a value that may be stored in s by a plain assignment.
func (g *pgGen) assignValue(s *pgSym, c pgCtx, d int) pgExpr {
	switch s.ty {
	case pgInt:
		return g.fit(g.genInt(c, d), s.abs)
	case pgBool:
		return g.genBool(c, d)
	case pgStr:
		return g.genStrC(c, d, s.minLen, s.abs, !s.dirty)
	}
	if s.global && g.fn != nil {
		s.fnReassigned = true
	}
	e := g.genSlice(s.ty, c, s.minLen)
	if e.prec == 6 && !strings.Contains(e.s, "{") && !e.call {
		g.f("slice_alias")
	}
	return e
}

func (g *pgGen) stAssign(c pgCtx) bool {
	in := g.ind(c)
	k := g.rn(100)
	if k < 16 {
		// swap
		ty := []pgTy{pgInt, pgInt, pgBool, pgStr}[g.rn(4)]
		l := g.writable(ty)
		if len(l) < 2 || g.p(25) {
			// two fresh variables with the same static facts, exchanged at once
			n1 := g.fresh()
			n2 := g.fresh(n1)
			e1, e2 := g.genExpr(ty, c, 1), g.genExpr(ty, c, 1)
			g.line(in, fmt.Sprintf("%s, %s := %s, %s", n1, n2, e1.s, e2.s))
			e1.bnd, e1.minLen, e1.dirty = pgMax(e1.bnd, e2.bnd), pgMin(e1.minLen, e2.minLen), e1.dirty || e2.dirty
			s1 := g.define(g.newSym(n1, ty, e1), c)
			s2 := *s1
			s2.name = n2
			g.define(&s2, c)
			g.line(in, fmt.Sprintf("%s, %s = %s, %s", n1, n2, n2, n1))
			s1.cur, s2.cur = s1.hi, s2.hi
			g.f("def_short_multi")
			g.f("swap")
			g.tick(c, 1)
			return true
		}
		a := l[g.rn(len(l))]
		b := l[g.rn(len(l))]
		for try := 0; try < 8; try++ {
			// look for a pair whose static facts allow the exchange
			x, y := l[g.rn(len(l))], l[g.rn(len(l))]
			if x != y && (pgMax(x.abs, y.abs)+(x.cur-x.abs)+(y.cur-y.abs))*x.fac*y.fac <= pgMin(x.hi, y.hi) && x.minLen == y.minLen && x.dirty == y.dirty {
				a, b = x, y
				break
			}
		}
		if a == b {
			return false
		}
		// values flow both ways: both variables get the joint bound and no further relative writes
		joint := (pgMax(a.abs, b.abs) + (a.cur - a.abs) + (b.cur - b.abs)) * a.fac * b.fac
		if g.o.Safe && (joint > pgMin(a.hi, b.hi) || a.minLen != b.minLen || a.dirty != b.dirty) {
			if ty != pgInt {
				return false
			}
			m := pgMin(a.abs, b.abs)
			ea, eb := g.fit(pgExpr{s: b.name, prec: 6, bnd: g.intBound(b)}, m), g.fit(pgExpr{s: a.name, prec: 6, bnd: g.intBound(a)}, m)
			g.line(in, fmt.Sprintf("%s, %s = %s, %s", a.name, b.name, ea.s, eb.s))
			g.wrote(a)
			g.wrote(b)
			g.f("assign_multi")
			return true
		}
		g.line(in, fmt.Sprintf("%s, %s = %s, %s", a.name, b.name, b.name, a.name))
		a.cur, b.cur, a.fac, b.fac = a.hi, b.hi, 1, 1
		g.wrote(a)
		g.wrote(b)
		g.f("swap")
		return true
	}
	if k < 30 && g.o.Funcs {
		// a, b = f()
		for _, fn := range g.callable(c, func(fn *pgFunc) bool { return len(fn.rets) >= 2 }) {
			tg := []*pgSym{}
			for _, rt := range fn.rets {
				var hit *pgSym
				for _, s := range g.writable(rt.ty) {
					dup := false
					for _, o := range tg {
						dup = dup || o == s
					}
					okv := !g.o.Safe || (rt.ty == pgBool) || (rt.ty == pgInt && rt.abs <= s.abs) ||
						(rt.ty == pgStr && rt.abs <= s.abs && rt.minLen >= s.minLen) || (rt.ty.isSlice() && rt.minLen >= s.minLen)
					if !dup && okv && (hit == nil || g.p(50)) {
						hit = s
					}
				}
				if hit == nil {
					break
				}
				tg = append(tg, hit)
			}
			if len(tg) != len(fn.rets) {
				continue
			}
			call := g.callText(fn, c)
			names := []string{}
			for _, s := range tg {
				names = append(names, s.name)
				if s.ty.isSlice() && s.global && g.fn != nil {
					s.fnReassigned = true
				}
				g.wrote(s)
			}
			g.line(in, strings.Join(names, ", ")+" = "+call.s)
			g.f("multi_assign")
			return true
		}
		return false
	}
	if k < 40 {
		// a, b = e1, e2
		t1, t2 := g.randTy(), g.randTy()
		a, b := g.pick(g.writable(t1)), g.pick(g.writable(t2))
		if a == nil || b == nil || a == b {
			return false
		}
		e1, e2 := g.assignValue(a, c, 1), g.assignValue(b, c, 1)
		g.line(in, fmt.Sprintf("%s, %s = %s, %s", a.name, b.name, e1.s, e2.s))
		g.wrote(a)
		g.wrote(b)
		g.f("assign_multi")
		return true
	}
	s := g.pick(g.writable(g.randTy()))
	if s == nil {
		return false
	}
	e := g.assignValue(s, c, 2)
	g.line(in, s.name+" = "+e.s)
	g.wrote(s)
	g.f("assign")
	return true
}

// stCompound emits x op= e, x++ or x--.
func (g *pgGen) stCompound(c pgCtx) bool {
	in := g.ind(c)
	if g.o.Strings && g.p(20) {
		s := g.pick(g.writable(pgStr))
		if s == nil {
			return false
		}
		m := g.relMult(s, c)
		room := (s.hi - s.cur) / m
		if g.o.Safe && room < 1 {
			return false
		}
		e := g.genStrC(c, 1, 0, pgMin(room, 6), !s.dirty)
		s.cur += m * e.bnd
		g.line(in, s.name+" += "+e.s)
		g.wrote(s)
		g.f("compound")
		g.f("compound_str")
		return true
	}
	s := g.pick(g.writable(pgInt))
	if s == nil {
		return false
	}
	m := g.relMult(s, c)
	if g.p(45) {
		if g.o.Safe && (s.cur+m)*s.fac > s.hi {
			return false
		}
		s.cur += m
		op := "++"
		if g.p(40) {
			op = "--"
			g.f("minus_minus")
		}
		g.line(in, s.name+op)
		g.wrote(s)
		g.f("incdec")
		return true
	}
	switch op := []string{"+=", "+=", "-=", "-=", "*=", "/=", "%="}[g.rn(7)]; op {
	case "+=", "-=":
		room := (s.hi/s.fac - s.cur) / m
		if g.o.Safe && room < 1 {
			return false
		}
		e := g.fit(g.genInt(c, 1), pgMin(room, 1+g.rn(50)))
		if !g.o.Safe {
			e = g.genInt(c, 1)
		}
		s.cur += m * e.bnd
		if op == "-=" && strings.HasPrefix(e.s, "-") {
			g.f("minus_minus")
		}
		g.line(in, s.name+" "+op+" "+e.s)
	case "*=":
		k := 2 + g.rn(2)
		f := s.fac
		for i := 0; i < m && f <= pgVMax; i++ {
			f *= k
		}
		if g.o.Safe && s.cur*f > s.hi {
			return false
		}
		s.fac = f
		t := fmt.Sprint(k)
		if g.p(25) {
			t = "-" + t
			g.f("neg_literal")
		}
		g.line(in, s.name+" *= "+t)
	default:
		if !g.o.Safe && g.p(25) {
			g.line(in, s.name+" "+op+" "+g.genInt(c, 1).s)
		} else {
			g.line(in, s.name+" "+op+" "+fmt.Sprint(g.nzLit()))
		}
	}
	g.wrote(s)
	g.f("compound")
	return true
}

// stSliceWrite emits s[i] = e, also at or beyond the end (growth).
func (g *pgGen) stSliceWrite(c pgCtx) bool {
	if !g.o.Slices || (g.fn != nil && g.fnPure) {
		return false
	}
	in := g.ind(c)
	ty := []pgTy{pgSInt, pgSInt, pgSBool, pgSStr}[g.rn(4)]
	s := g.pick(g.symsOf(ty, nil))
	if s == nil {
		return false
	}
	et := int(ty.elem())
	mayGrow := g.rngLock[et] == 0 || !g.o.Safe
	if mayGrow && g.p(45) {
		idx := ""
		after := 0
		if g.p(50) && g.grow+c.mult <= pgGrowMax {
			g.grow += c.mult
			idx = "len(" + s.name + ")"
			after = s.minLen + 1
		} else {
			lo := s.minLen
			if lo >= pgKMax {
				return false
			}
			k := lo + g.rn(pgMin(3, pgKMax-lo))
			idx = fmt.Sprint(k)
			after = k + 1
		}
		e := g.elemExpr(ty.elem(), c)
		g.line(in, s.name+"["+idx+"] = "+e.s)
		g.raise(s, after)
		if g.fn != nil {
			g.fn.grows[et] = true
			g.fn.effects = true
		}
		g.f("slice_grow")
		g.f("slice_set")
		return true
	}
	if s.minLen == 0 && g.o.Safe && len(g.symsOf(pgInt, func(v *pgSym) bool { return v.idxOf == s })) == 0 {
		return false
	}
	i, ok := g.safeIdx(s, c)
	if !ok {
		return false
	}
	e := g.elemExpr(ty.elem(), c)
	g.line(in, s.name+"["+i.s+"] = "+e.s)
	if g.fn != nil {
		g.fn.effects = true
	}
	g.f("slice_set")
	return true
}

// stCopy defines a fresh destination (shorter than, as long as or longer than the source) and copies into it.
func (g *pgGen) stCopy(c pgCtx) bool {
	if !g.o.Slices {
		return false
	}
	in := g.ind(c)
	ty := []pgTy{pgSInt, pgSInt, pgSBool, pgSStr}[g.rn(4)]
	src := g.pick(g.symsOf(ty, nil))
	if src == nil {
		return false
	}
	d := g.fresh()
	n := g.rn(pgMin(src.minLen, pgLit0Max) + 1)
	if g.p(40) {
		n = g.rn(pgLit0Max + 1) // also destinations longer than the source: the tail stays, the count is the source's length
		g.f("copy_any_length")
	}
	if n == 0 && g.p(50) {
		g.line(in, fmt.Sprintf("var %s %s", d, ty))
	} else {
		el := []string{}
		for i := 0; i < n; i++ {
			el = append(el, g.elemExpr(ty.elem(), c).s)
		}
		g.line(in, fmt.Sprintf("%s := %s{%s}", d, ty, strings.Join(el, ", ")))
	}
	ds := g.define(&pgSym{name: d, ty: ty, minLen: pgMax(n, src.minLen)}, c)
	call := "copy(" + ds.name + ", " + src.name + ")"
	k := g.rn(3)
	if g.fn != nil && g.fnPure {
		k = g.rn(2)
	}
	switch k {
	case 0:
		g.line(in, call)
	case 1:
		nn := g.fresh()
		g.line(in, nn+" := "+call)
		g.define(g.newInt(nn, pgLMax), c)
	default:
		g.line(in, "print("+call+", len("+ds.name+"))")
	}
	g.tick(c, 1)
	g.f("copy")
	return true
}

func (g *pgGen) printArg(c pgCtx) pgExpr {
	t := []pgTy{pgInt, pgInt, pgInt, pgBool, pgStr}[g.rn(5)]
	return g.genExpr(t, c, 1+g.rn(2))
}

func (g *pgGen) stPrint(c pgCtx) bool {
	if g.fn != nil && g.fnPure {
		return false
	}
	args := []string{}
	if g.p(40) {
		args = append(args, g.strLit(1, 4).s)
	}
	for n := 1 + g.rn(3); n > 0; n-- {
		args = append(args, g.printArg(c).s)
	}
	if g.p(2) {
		args = nil
	}
	g.line(g.ind(c), "print("+strings.Join(args, ", ")+")")
	if g.fn != nil {
		g.fn.effects = true
		g.f("print_in_func")
	}
	g.f("print")
	return true
}

// stCall emits a call as statement.
func (g *pgGen) stCall(c pgCtx) bool {
	l := g.callable(c, func(fn *pgFunc) bool { return len(fn.rets) == 0 || g.p(30) })
	if len(l) == 0 {
		return false
	}
	fn := l[g.rn(len(l))]
	g.line(g.ind(c), g.callText(fn, c).s)
	g.f("call_stmt")
	return true
}

// ---- blocks and compound statements ----

// body generates the statements of one block in a new scope; first emits mandatory leading
// statements.  It reports whether the block ends with break, continue, return or panic.
func (g *pgGen) body(c pgCtx, first func(), cond bool) bool {
	g.push()
	mark := len(g.raises)
	if first != nil {
		first()
	}
	n := 1 + g.rn(g.o.MaxStmts)
	if len(g.out) > g.lineMax || g.work > pgWorkMax {
		n = 1
	}
	term := false
	for i := 0; i < n && !term; i++ {
		if i > 0 && len(g.out) > g.lineMax+4 {
			break
		}
		last := i == n-1
		if last && cond && g.p(22) {
			term = g.stJump(c)
			if term {
				break
			}
		}
		g.stmt(c)
	}
	for len(g.raises) > mark {
		ra := g.raises[len(g.raises)-1]
		ra.s.minLen = ra.old
		g.raises = g.raises[:len(g.raises)-1]
	}
	g.pop()
	return term
}

// stJump emits break, continue, a nested return or a panic where that is allowed.
func (g *pgGen) stJump(c pgCtx) bool {
	in := g.ind(c)
	opts := []string{}
	if c.brk || (c.inLoop && !g.o.Safe) {
		opts = append(opts, "break", "break")
	}
	if c.cont {
		opts = append(opts, "continue", "continue")
	}
	if g.fn != nil && len(g.fnRets) > 0 {
		opts = append(opts, "return")
	}
	if g.p(4) && !(g.fn != nil && g.fnPure) {
		opts = append(opts, "panic")
	}
	if len(opts) == 0 {
		return false
	}
	switch o := opts[g.rn(len(opts))]; o {
	case "return":
		g.line(in, "return "+g.retValues(c))
		g.f("return_nested")
	case "panic":
		g.line(in, "panic("+g.strLit(1, 5).s+")")
		g.f("panic")
		if g.fn != nil {
			g.fn.effects = true
		}
	default:
		g.line(in, o)
		g.f(o)
	}
	g.tick(c, 1)
	return true
}

func (g *pgGen) retValues(c pgCtx) string {
	v := []string{}
	for _, rt := range g.fnRets {
		var e pgExpr
		switch {
		case !g.o.Safe && g.p(6) && rt.ty == pgStr:
			e = pgExpr{s: "nil"}
		case rt.ty == pgInt:
			e = g.fit(g.genInt(c, 2), rt.abs)
		case rt.ty == pgBool:
			e = g.genBool(c, 2)
		case rt.ty == pgStr:
			e = g.genStrC(c, 2, rt.minLen, rt.abs, true)
		default:
			e = g.genSlice(rt.ty, c, rt.minLen)
		}
		v = append(v, e.s)
	}
	return strings.Join(v, ", ")
}

func (g *pgGen) inner(c pgCtx) pgCtx {
	c.depth++
	c.nest++
	c.pure = false
	return c
}

func (g *pgGen) construct(c pgCtx, k string) {
	g.f(k)
	if c.nest >= 2 {
		g.f("nest3")
	}
	g.tick(c, 1)
}

func (g *pgGen) stIf(c pgCtx) bool {
	in := g.ind(c)
	g.construct(c, "if")
	g.line(in, "if "+g.genCond(c).s+" {")
	ci := g.inner(c)
	g.body(ci, nil, true)
	for n := []int{0, 0, 0, 1, 1, 2}[g.rn(6)]; n > 0; n-- {
		g.line(in, "} else if "+g.genCond(c).s+" {")
		g.f("elseif")
		g.body(ci, nil, true)
	}
	if g.p(40) {
		g.line(in, "} else {")
		g.f("else")
		g.body(ci, nil, true)
	}
	g.line(in, "}")
	return true
}

func (g *pgGen) stSwitch(c pgCtx) bool {
	in := g.ind(c)
	ci := g.inner(c)
	ci.brk = !g.o.Safe && ci.inLoop && g.p(30) // a break in a switch leaves the loop in the emitted script
	cp := c
	cp.pure = g.o.Safe
	n := 1 + g.rn(3)
	cases := []string{}
	switch k := g.rn(100); {
	case k < 40:
		tag := g.genInt(cp, 1)
		span := 6
		if v := g.pick(g.symsOf(pgInt, nil)); v != nil && g.p(75) {
			// a tag that takes few values, the cases among them
			span = 2 + g.rn(3)
			tag = pgExpr{s: v.name + " % " + fmt.Sprint(span), prec: 5}
			if v.cnt && v.chi <= 5 && g.p(50) {
				tag, span = pgExpr{s: v.name, prec: 6}, v.chi+1
			}
		}
		n = pgMin(n, span)
		g.line(in, "switch "+tag.s+" {")
		g.construct(c, "switch")
		seen := map[int]bool{}
		for len(cases) < n {
			v := g.rn(span)
			if g.p(10) {
				v = -1 - g.rn(3)
			}
			if !seen[v] {
				seen[v] = true
				cases = append(cases, fmt.Sprint(v))
			}
		}
	case k < 55 && len(g.symsOf(pgStr, nil)) > 0:
		v := g.pick(g.symsOf(pgStr, nil))
		g.line(in, "switch "+v.name+" {")
		g.construct(c, "switch")
		seen := map[string]bool{}
		for len(cases) < n {
			l := g.strLit(0, 2)
			if !seen[l.s[1:len(l.s)-1]] {
				seen[l.s[1:len(l.s)-1]] = true
				cases = append(cases, l.s)
			}
		}
	default:
		if g.p(30) {
			g.line(in, "switch true {")
			g.f("switch_true")
		} else {
			g.line(in, "switch {")
		}
		g.construct(c, "switch_notag")
		for len(cases) < n {
			cases = append(cases, g.genCond(c).s)
		}
	}
	def := -1
	if g.p(60) {
		def = n
		if g.p(20) {
			def = g.rn(n + 1)
		}
	}
	if g.p(4) {
		cases, def = nil, 0 // only a default branch
	}
	for i := 0; i <= len(cases); i++ {
		if i == def {
			g.line(in, "default:")
			g.f("default")
			g.body(ci, nil, true)
		}
		if i < len(cases) {
			g.line(in, "case "+cases[i]+":")
			g.f("case")
			if g.p(5) && i+1 < len(cases) {
				g.f("empty_case")
				continue
			}
			g.body(ci, nil, true)
		}
	}
	g.line(in, "}")
	return true
}

// loopCtx is the context of a loop body executed at most n times.
func (g *pgGen) loopCtx(c pgCtx, n int) pgCtx {
	ci := g.inner(c)
	ci.mult = c.mult * n
	ci.inLoop, ci.brk, ci.cont = true, true, true
	return ci
}

// maxIter is the largest number of iterations a new loop may have at this position (0: none).
func (g *pgGen) maxIter(c pgCtx) int {
	if g.force {
		// hand-written shapes bring their own small loops
		if g.work > pgWorkMax+150 {
			return 0
		}
		return pgMultMax / c.mult
	}
	if len(g.out) > g.lineMax || g.work > pgWorkMax {
		return 0
	}
	lim := pgMultMax
	if g.fn != nil {
		lim = pgMultMax
	}
	return lim / c.mult
}

func (g *pgGen) counter(name string, lo, hi int) *pgSym {
	return &pgSym{name: name, ty: pgInt, abs: hi, hi: hi, cur: hi, cnt: true, lo: lo, chi: hi, ro: 1}
}

// release turns a loop counter that stays visible into an ordinary variable.
func (g *pgGen) release(s *pgSym, maxv int) {
	s.cnt, s.ro = false, 0
	s.abs, s.cur, s.fac = maxv, maxv, 1
	s.hi = maxv + 20 + g.rn(200)
}

// stFor3 emits the three-clause loop in its variants.
func (g *pgGen) stFor3(c pgCtx) bool {
	mx := g.maxIter(c)
	if mx < 2 {
		return false
	}
	in := g.ind(c)
	n := 1 + g.rn(pgMin(mx, 5))
	// loop over the indices of a string or slice variable
	if (g.o.Slices || g.o.Strings) && g.p(25) {
		tys := []pgTy{}
		if g.o.Slices {
			tys = append(tys, pgSInt, pgSBool, pgSStr)
		}
		if g.o.Strings {
			tys = append(tys, pgStr)
		}
		ty := tys[g.rn(len(tys))]
		s := g.pick(g.symsOf(ty, func(s *pgSym) bool {
			return (ty == pgStr && s.hi <= mx) || (ty != pgStr && pgLMax <= mx)
		}))
		if s != nil {
			iters := pgLMax
			if ty == pgStr {
				iters = s.hi
			}
			g.construct(c, "for3")
			g.f("for3_len")
			g.push()
			i := g.define(g.counter(g.fresh(), 0, iters), c)
			i.cnt, i.idxOf = false, s
			g.line(in, fmt.Sprintf("for %s := 0; %s < len(%s); %s++ {", i.name, i.name, s.name, i.name))
			g.lockRange(s, 1)
			g.body(g.loopCtx(c, pgMax(iters, 1)), nil, false)
			g.lockRange(s, -1)
			g.pop()
			g.line(in, "}")
			return true
		}
	}
	g.construct(c, "for3")
	noInit, noInc := g.p(22), g.p(22)
	var i *pgSym
	name := g.fresh()
	g.push()
	lo, hi := 0, n-1
	head := ""
	step := "++"
	switch k := g.rn(100); {
	case k < 60 || noInc || noInit:
		cmp := fmt.Sprintf("%s < %d", name, n)
		if g.p(15) {
			cmp = fmt.Sprintf("%s <= %d", name, n-1)
		} else if g.p(10) {
			cmp = fmt.Sprintf("%s != %d", name, n)
		}
		head = fmt.Sprintf("%s := 0; %s; %s++", name, cmp, name)
		if noInit || noInc {
			ini, inc := name+" := 0", name+"++"
			if noInit {
				g.pop()
				if g.p(50) {
					g.line(in, name+" := 0")
				} else {
					g.line(in, "var "+name+" int")
				}
				i = g.define(g.counter(name, lo, hi), c)
				g.push()
				ini = ""
				g.f("for3_noinit")
			}
			if noInc {
				inc = ""
				lo, hi = 1, n
				g.f("for3_noinc")
			}
			head = strings.TrimRight(fmt.Sprintf("%s; %s; %s", ini, cmp, inc), " ")
		}
	case k < 80:
		lo, hi = 1, n
		head = fmt.Sprintf("%s := %d; %s > 0; %s--", name, n, name, name)
		step = "--"
		g.f("minus_minus")
	default:
		st := 2 + g.rn(2)
		top := pgMin(n*st, 9)
		lo, hi = 0, top-1
		head = fmt.Sprintf("%s := 0; %s < %d; %s += %d", name, name, top, name, st)
		n = (top + st - 1) / st
		g.f("compound")
	}
	_ = step
	if i == nil {
		i = g.define(g.counter(name, lo, hi), c)
	} else {
		i.lo, i.chi = lo, hi
	}
	g.line(in, "for "+head+" {")
	ci := g.loopCtx(c, pgMax(n, 1))
	var first func()
	if noInc && strings.HasSuffix(head, ";") {
		first = func() {
			g.line(g.ind(ci), name+"++")
			g.f("incdec")
		}
	}
	g.body(ci, first, false)
	g.pop()
	g.line(in, "}")
	if noInit {
		g.release(i, n+1)
	}
	return true
}

// lockRange protects a ranged operand: no write to the variable and no resize of slices of its element type.
func (g *pgGen) lockRange(s *pgSym, d int) {
	s.ro += d
	if s.ty.isSlice() {
		g.rngLock[s.ty.elem()] += d
	}
}

// stWhile emits for cond { } and for { } loops driven by a fresh counter.
func (g *pgGen) stWhile(c pgCtx) bool {
	mx := g.maxIter(c)
	if mx < 2 {
		return false
	}
	in := g.ind(c)
	n := 1 + g.rn(pgMin(mx, 5))
	name := g.fresh()
	if g.p(50) {
		g.line(in, name+" := 0")
	} else {
		g.line(in, "var "+name+" = 0")
	}
	i := g.define(g.counter(name, 1, n), c)
	ci := g.loopCtx(c, n)
	inc := func() {
		if g.p(70) {
			g.line(g.ind(ci), name+"++")
			g.f("incdec")
		} else {
			g.line(g.ind(ci), name+" += 1")
			g.f("compound")
		}
	}
	if g.p(50) {
		g.construct(c, "forcond")
		cond := fmt.Sprintf("%s < %d", name, n)
		if g.p(30) {
			cond = g.bin(pgExpr{s: cond, prec: 3}, "&&", 2, g.genBool(c, 1)).s
		}
		g.line(in, "for "+cond+" {")
		g.body(ci, inc, false)
	} else {
		g.construct(c, "forever")
		g.line(in, "for {")
		guard := func() {
			g.line(g.ind(ci), fmt.Sprintf("if %s >= %d {", name, n))
			g.line(g.ind(ci)+1, "break")
			g.line(g.ind(ci), "}")
			g.f("if")
			g.f("break")
		}
		if g.p(60) {
			// counter and guard first: continue cannot skip them
			i.lo, i.chi = 1, n-1
			g.body(ci, func() { inc(); guard() }, false)
		} else {
			// guard last: no continue in this body
			ci.cont = false
			g.push()
			inc()
			g.body(ci, nil, false)
			guard()
			g.pop()
		}
	}
	g.line(in, "}")
	g.release(i, n+1)
	return true
}

// stRange emits for i, v := range x over a slice or a string.
func (g *pgGen) stRange(c pgCtx) bool {
	mx := g.maxIter(c)
	in := g.ind(c)
	tys := []pgTy{}
	if g.o.Slices {
		tys = append(tys, pgSInt, pgSInt, pgSBool, pgSStr)
	}
	if g.o.Strings {
		tys = append(tys, pgStr, pgStr)
	}
	if len(tys) == 0 {
		return false
	}
	ty := tys[g.rn(len(tys))]
	var s *pgSym
	op := ""
	iters := 0
	if g.p(80) {
		s = g.pick(g.symsOf(ty, func(s *pgSym) bool {
			return (ty == pgStr && s.hi <= mx) || (ty != pgStr && pgLMax <= mx)
		}))
	}
	if s != nil {
		op, iters = s.name, pgLMax
		if ty == pgStr {
			iters = s.hi
		}
	} else {
		// literal operand (evaluated several times per iteration, so without calls)
		cp := c
		cp.nocall = true
		var e pgExpr
		if ty == pgStr {
			e = g.strLit(0, pgMin(mx, 5))
			iters = e.bnd
		} else {
			if mx < pgLit0Max {
				return false
			}
			e = g.genSlice(ty, cp, 0)
			if !strings.Contains(e.s, "{") {
				return false
			}
			iters = e.minLen
		}
		op = e.s
	}
	if iters > mx {
		return false
	}
	g.push()
	iname := g.fresh()
	i := g.define(g.counter(iname, 0, pgMax(iters, 1)), c)
	i.cnt, i.idxOf = false, s
	head := iname
	if g.p(75) {
		vname := g.fresh()
		v := g.define(g.newSym(vname, ty.elem(), pgExpr{bnd: pgEMax, minLen: 0}), c)
		v.ro = 1
		switch v.ty {
		case pgInt:
			v.abs, v.hi, v.cur = pgEMax, pgEMax, pgEMax
		case pgStr:
			v.abs, v.hi, v.cur, v.minLen, v.dirty = pgElemStrMax, pgElemStrMax, pgElemStrMax, 0, false
			if ty == pgStr {
				v.abs, v.hi, v.cur, v.minLen, v.dirty = 1, 1, 1, 1, true
			}
		}
		head += ", " + vname
	} else {
		g.f("range_index_only")
	}
	if ty == pgStr {
		g.construct(c, "range_string")
	} else {
		g.construct(c, "range_slice")
	}
	g.line(in, "for "+head+" := range "+op+" {")
	if s != nil {
		g.lockRange(s, 1)
	}
	g.body(g.loopCtx(c, pgMax(iters, 1)), nil, false)
	if s != nil {
		g.lockRange(s, -1)
	}
	g.pop()
	g.line(in, "}")
	return true
}

// ---- statement dispatch ----

// stmt emits one statement (a construct counts as one).
func (g *pgGen) stmt(c pgCtx) {
	if g.mutate == 0 {
		g.mutate = -1
		g.stInvalid(c)
		return
	}
	if g.mutate > 0 {
		g.mutate--
	}
	if g.o.Safe && c.depth > 0 && len(g.out) <= g.lineMax && g.p(1) {
		if []func(pgCtx) bool{g.idMultiRef, g.idEmptyBranch, g.idLenPair}[g.rn(3)](c) {
			return
		}
	}
	nested := c.depth < g.o.MaxDepth-1 && len(g.out) <= g.lineMax
	pc := []int{38, 50, 45, 30, 20, 10}[pgMin(c.depth, 5)]
	if nested && g.p(pc) {
		for try := 0; try < 3; try++ {
			ok := false
			switch k := g.rn(100); {
			case k < 30:
				ok = g.stIf(c)
			case k < 42:
				ok = g.stSwitch(c)
			case k < 62:
				ok = g.stFor3(c)
			case k < 78:
				ok = g.stWhile(c)
			default:
				ok = g.stRange(c)
			}
			if ok {
				return
			}
		}
	}
	for try := 0; try < 6; try++ {
		ok := false
		switch k := g.rn(100); {
		case k < 22:
			ok = g.stDef(c)
		case k < 40:
			ok = g.stAssign(c)
		case k < 55:
			ok = g.stCompound(c)
		case k < 65:
			ok = g.stSliceWrite(c)
		case k < 69:
			ok = g.stCopy(c)
		case k < 80:
			ok = g.o.Funcs && g.stCall(c)
		default:
			ok = g.stPrint(c)
		}
		if ok {
			g.tick(c, 1)
			return
		}
	}
	// always possible
	n := g.fresh()
	g.line(g.ind(c), n+" := "+g.intLit().s)
	g.define(g.newInt(n, 1000), c)
	g.tick(c, 1)
}

// stInvalid emits one statement that is lexically valid but ill-typed or ill-scoped.
func (g *pgGen) stInvalid(c pgCtx) {
	in := g.ind(c)
	g.f("mutated_invalid")
	iv := g.pick(g.symsOf(pgInt, nil))
	name := "x"
	if iv != nil {
		name = iv.name
	}
	ghost := "zz" + fmt.Sprint(g.rn(9))
	opts := []string{
		"print(" + ghost + ")",
		ghost + " = 1",
		ghost + "()",
		"print(1 + true)",
		"print(\"a\" - \"b\")",
		"print(!3)",
		"print(1 && true)",
		"print(\"s\" < 2)",
		"if 5 {\n" + strings.Repeat("\t", in+1) + "print(1)\n" + strings.Repeat("\t", in) + "}",
		"var " + ghost + " int = \"s\"",
		ghost + " := itoa(\"s\")",
		ghost + " := len(3)",
		"func " + ghost + "() {\n" + strings.Repeat("\t", in) + "}\n" + strings.Repeat("\t", in) + ghost + "(1)",
	}
	if iv != nil {
		opts = append(opts, name+" := 1", name+" = \"s\"", name+" = true", "var "+name+" int", name+"[0] = 1", name+" += \"s\"",
			name+", "+name+"2 = 1", "print(len("+name+"))")
	}
	if !c.inLoop {
		opts = append(opts, "break", "continue")
	}
	if g.fn == nil || (len(g.fnRets) == 0 && c.depth == 0) {
		opts = append(opts, "return 1")
	}
	if c.depth > 0 || g.fn != nil {
		opts = append(opts, "func "+ghost+"() {\n"+strings.Repeat("\t", in)+"}")
	}
	if bv := g.pick(g.symsOf(pgBool, nil)); bv != nil {
		opts = append(opts, bv.name+"++", bv.name+" = "+bv.name+" + 1")
	}
	if len(g.funcs) > 0 {
		fn := g.funcs[g.rn(len(g.funcs))]
		opts = append(opts, fn.name+"(1, 2, 3, 4)", "print("+fn.name+")")
		if len(fn.rets) == 0 {
			opts = append(opts, ghost+" := "+fn.name+"()")
		}
	}
	for _, l := range strings.Split(opts[g.rn(len(opts))], "\n") {
		if strings.HasPrefix(l, "\t") {
			g.out = append(g.out, l)
		} else {
			g.line(in, l)
		}
	}
}

// ---- functions ----

// genFunc emits a function with np parameters (np < 0: zero to three).
func (g *pgGen) genFunc(np int) *pgFunc {
	name := g.fnName(pgFuncNames[g.fnames%len(pgFuncNames)])
	g.fnames++
	fn := &pgFunc{name: name, writes: map[*pgSym]bool{}}
	tys := []pgTy{pgInt, pgInt, pgInt, pgBool, pgStr}
	if g.o.Slices {
		tys = append(tys, pgSInt, pgSInt, pgSStr, pgSBool)
	}
	base := []int{1, 2, 2, 3, 4, 4, 6, 8}[g.rn(8)]
	c := pgCtx{mult: base}
	g.fn, g.fnBase = fn, base
	g.push()
	sig := []string{}
	if np < 0 {
		np = g.rn(4)
	}
	for n := np; n > 0; n-- {
		ty := tys[g.rn(len(tys))]
		pn := g.fresh()
		var s *pgSym
		switch {
		case ty == pgInt:
			a := []int{9, 99, 999}[g.rn(3)]
			s = &pgSym{name: pn, ty: ty, abs: a, cur: a, hi: a + 50 + g.rn(300)}
		case ty == pgStr:
			a := 4 + g.rn(7)
			s = &pgSym{name: pn, ty: ty, abs: a, cur: a, hi: a + g.rn(9), minLen: []int{0, 0, 1, 2}[g.rn(4)]}
		case ty.isSlice():
			s = &pgSym{name: pn, ty: ty, minLen: []int{0, 0, 1, 2, 3}[g.rn(5)]}
		default:
			s = &pgSym{name: pn, ty: ty}
		}
		g.define(s, c)
		fn.params = append(fn.params, s)
		sig = append(sig, pn+" "+ty.String())
	}
	rs := []string{}
	for n := []int{0, 0, 1, 1, 1, 1, 2, 2, 3}[g.rn(9)]; n > 0; n-- {
		ty := tys[g.rn(len(tys))]
		rt := pgRet{ty: ty}
		switch {
		case ty == pgInt:
			rt.abs = []int{9, 99, 999, 9999}[g.rn(4)]
		case ty == pgStr:
			rt.abs, rt.minLen = 6+g.rn(11), []int{0, 0, 1, 2}[g.rn(4)]
		case ty.isSlice():
			rt.minLen = []int{0, 1, 2, 2}[g.rn(4)]
		}
		fn.rets = append(fn.rets, rt)
		rs = append(rs, ty.String())
	}
	g.fnRets = fn.rets
	g.fnPure = !g.o.Effects && len(fn.rets) > 0
	head := "func " + name + "(" + strings.Join(sig, ", ") + ")"
	noParens := len(sig) == 0 && len(rs) <= 1 && g.p(12)
	if noParens {
		head = "func " + name
		g.f("func_noparens")
	}
	switch {
	case len(rs) == 1 && (noParens || g.p(85)):
		head += " " + rs[0]
	case len(rs) >= 1:
		head += " (" + strings.Join(rs, ", ") + ")"
	}
	if len(rs) >= 2 {
		g.f("multi_return")
	}
	g.f("func")
	g.line(0, head+" {")
	g.push()
	mark := len(g.raises)
	if g.o.Effects && len(fn.rets) > 0 && g.p(65) {
		// make the call observable: trace line or update of a global
		gl := g.pick(g.symsOf(pgInt, func(s *pgSym) bool { return s.global && s.ro == 0 && (s.cur+base)*s.fac <= s.hi }))
		if gl != nil && g.p(50) {
			gl.cur += base
			g.line(1, gl.name+"++")
			g.wrote(gl)
			g.f("incdec")
		} else {
			args := []string{`"` + name + `"`}
			for _, pa := range fn.params {
				if !pa.ty.isSlice() {
					args = append(args, pa.name)
				}
			}
			g.line(1, "print("+strings.Join(args, ", ")+")")
			fn.effects = true
			g.f("print")
			g.f("print_in_func")
		}
		fn.cost++
	}
	if np >= 9 {
		g.useAllParams(fn, c)
		g.f("many_params")
	}
	n := g.rn(g.o.MaxStmts + 1)
	if len(fn.rets) == 0 && n == 0 && g.p(90) {
		n = 1
	}
	for i := 0; i < n && fn.cost < 30; i++ {
		g.stmt(c)
	}
	if len(fn.rets) > 0 {
		g.line(1, "return "+g.retValues(c))
		fn.cost++
	}
	for len(g.raises) > mark {
		ra := g.raises[len(g.raises)-1]
		ra.s.minLen = ra.old
		g.raises = g.raises[:len(g.raises)-1]
	}
	g.pop()
	g.pop()
	g.line(0, "}")
	fn.cost = pgMax(fn.cost, 1)
	fn.budget = base
	g.fn, g.fnRets, g.fnPure, g.fnBase = nil, nil, false, 0
	g.funcs = append(g.funcs, fn)
	return fn
}

// ---- program ----

// GenProgram generates one program and the counts of the features it contains.
func GenProgram(r *rand.Rand, o GenOpts) (src string, features map[string]int) {
	if o.MaxDepth < 2 {
		o.MaxDepth = 2
	}
	if o.MaxDepth > 5 {
		o.MaxDepth = 5
	}
	if o.MaxStmts < 1 {
		o.MaxStmts = 1
	}
	if o.MaxStmts > 6 {
		o.MaxStmts = 6
	}
	g := &pgGen{r: r, o: o, feat: map[string]int{}, used: map[string]int{}, mutate: -1, fnTaken: map[string]bool{}}
	g.lineMax = 4 + g.rn(40)
	if !o.Safe && g.p(15) {
		g.mutate = g.rn(14)
	}
	g.push()
	c := pgCtx{mult: 1}
	items := 2 + g.rn(5)
	nf := 0
	if o.Funcs {
		nf = 1 + g.rn(4)
	}
	// hand-written shapes, each in about every tenth program, at random top-level positions
	shapes := []func(pgCtx) bool{}
	if o.Safe {
		for _, sh := range []func(pgCtx) bool{g.idMultiRef, g.idMultiNested, g.idEmptyBranch, g.idSliceInLoop, g.idBigCopy,
			g.idSameCondChain, g.idElseOnlyIf, g.idCallStmtNested, g.idLenPair, g.idLoopCallsLoopFn, g.idManyParams} {
			if g.p(14) {
				shapes = append(shapes, sh)
			}
		}
		g.r.Shuffle(len(shapes), func(i, j int) { shapes[i], shapes[j] = shapes[j], shapes[i] })
		if len(shapes) > 2 {
			shapes = shapes[:2]
		}
		g.lineMax = pgMax(4, g.lineMax-13*len(shapes))
	}
	// some globals first so that functions have something to see
	for n := g.rn(3); n > 0; n-- {
		g.stDef(c)
		g.tick(c, 1)
	}
	for i := 0; i < items || nf > 0; i++ {
		if len(shapes) > 0 && g.p(35) {
			g.shape(shapes[0], c)
			shapes = shapes[1:]
		}
		if nf > 0 && (g.p(45) || i >= items) && (len(g.out) <= g.lineMax || len(g.funcs) == 0) {
			g.genFunc(-1)
			nf--
			if g.p(50) {
				continue
			}
		} else if len(g.out) > g.lineMax && len(g.funcs) > 0 {
			nf = 0
		}
		if len(g.funcs) > 0 && g.p(45) {
			// use a function: statement, definition or print
			switch g.rn(3) {
			case 0:
				if g.stCall(c) {
					continue
				}
			case 1:
				if g.stDef(c) {
					g.tick(c, 1)
					continue
				}
			}
		}
		g.stmt(c)
	}
	for _, sh := range shapes {
		g.shape(sh, c)
	}
	for len(g.out) < 4 {
		g.stmt(c)
	}
	// every function is called at least once
	for _, fn := range g.funcs {
		if fn.called > 0 || !g.canCall(fn, c) {
			continue
		}
		call := g.callText(fn, c)
		switch {
		case len(fn.rets) == 0 || g.p(20):
			g.line(0, call.s)
			g.f("call_stmt")
		case len(fn.rets) == 1 && !fn.rets[0].ty.isSlice() && g.p(60):
			g.line(0, "print("+call.s+")")
			g.f("print")
		default:
			names := []string{}
			syms := []*pgSym{}
			for _, rt := range fn.rets {
				n := g.fresh(names...)
				names = append(names, n)
				syms = append(syms, g.newSym(n, rt.ty, pgExpr{bnd: rt.abs, minLen: rt.minLen}))
			}
			g.line(0, strings.Join(names, ", ")+" := "+call.s)
			for _, s := range syms {
				g.define(s, c)
			}
			if len(names) > 1 {
				g.f("multi_assign")
			}
			g.f("def_call")
		}
	}
	// make the final state observable
	obs := g.visible(func(s *pgSym) bool { return s.global && !s.ty.isSlice() })
	if len(obs) > 0 {
		args := []string{}
		for i := 0; i < 4 && i < len(obs); i++ {
			args = append(args, obs[g.rn(len(obs))].name)
		}
		g.line(0, "print("+strings.Join(args, ", ")+")")
		g.f("print")
	}
	for _, s := range g.visible(func(s *pgSym) bool { return s.global && s.ty.isSlice() }) {
		if g.p(50) {
			if s.minLen > 0 {
				g.line(0, fmt.Sprintf("print(len(%s), %s[%d])", s.name, s.name, g.rn(s.minLen)))
			} else {
				g.line(0, "print(len("+s.name+"))")
			}
		}
	}
	if g.mutate >= 0 {
		g.stInvalid(c)
	}
	return strings.Join(g.out, "\n") + "\n", g.feat
}

// ---- self-test ----

var pgSelfTestCombos = []GenOpts{
	{Safe: true, MaxDepth: 3, MaxStmts: 3},
	{Safe: true, Funcs: true, MaxDepth: 3, MaxStmts: 4},
	{Safe: true, Slices: true, Strings: true, MaxDepth: 4, MaxStmts: 3},
	{Safe: true, Funcs: true, Slices: true, Strings: true, Effects: true, MaxDepth: 4, MaxStmts: 4},
	{Safe: true, Funcs: true, Slices: true, Strings: true, Effects: true, MaxDepth: 5, MaxStmts: 6},
}

var pgElemRead = regexp.MustCompile(`echo \\\$\{(\$\{[A-Za-z0-9_]+\})\[([^\]]*)\]\}`)

var pgArith = regexp.MustCompile(`(?m)^([A-Za-z0-9_]+)="\$\(\(.*\)\)"$`)

// pgRunSafe transpiles src with the real library, runs the Bash script and describes what went wrong ("" if nothing).
// The strict variant additionally detects reads out of range (instrumented script) and large integers.
func pgRunSafe(dir string, src string, feat map[string]int, strict bool) (problem string, out string, dur time.Duration) {
	path := filepath.Join(dir, "p.tsh")
	os.WriteFile(path, []byte(src), 0644)
	res := transpileTo(path, "bash")
	if !strings.HasPrefix(res, "ok:") {
		return "rejected (" + res + ")", "", 0
	}
	script := filepath.Join(dir, "p.sh")
	text := unhx(strings.TrimPrefix(res, "ok:"))
	if strict {
		// let every arithmetic result report large values, the substring helper and every slice element read indices out of range
		text = pgArith.ReplaceAllString(text, "$0\nif [ \"${$1#-}\" -ge 1000000 ]; then echo \"large integer ${$1}\" >&2; fi")
		text = strings.Replace(text, "_sch() {\n", "_sch() {\n_cd=$(eval \"echo \\${${1}}\"); if [ $(eval \"echo \\${#${_cd}[@]}\") -gt $(eval \"echo \\${#${2}[@]}\") ]; then echo \"copy into a longer destination\" >&2; fi\n", 1)
		text = pgElemRead.ReplaceAllString(text, "echo \\${$1[$2]?out of range}")
		text = strings.Replace(text, "_ssh() {\n", "_ssh() {\nif [ ${2} -lt 0 ] || [ $((${3}+1)) -lt ${2} ] || [ ${3} -ge ${#1} ]; then echo \"substring out of range: ${2} ${3} of ${#1}\" >&2; fi\n", 1)
	}
	os.WriteFile(script, []byte(text), 0644)
	wd := filepath.Join(dir, "wd")
	os.RemoveAll(wd)
	os.MkdirAll(wd, 0755)
	cmd := exec.Command("timeout", "5", "bash", script)
	if strict {
	}
	cmd.Dir = wd
	var so, se strings.Builder
	cmd.Stdout, cmd.Stderr = &so, &se
	t0 := time.Now()
	err := cmd.Run()
	dur = time.Since(t0)
	code := 0
	if err != nil {
		code = -1
		if ee, ok := err.(*exec.ExitError); ok {
			code = ee.ExitCode()
		}
	}
	out = so.String()
	lines := strings.Split(strings.TrimRight(out, "\n"), "\n")
	switch {
	case code == 124:
		problem = "timeout"
	case se.Len() > 0:
		problem = "stderr: " + strings.TrimSpace(se.String())
	case code == 1 && feat["panic"] > 0 && strings.HasPrefix(lines[len(lines)-1], "panic:"):
	case code != 0:
		problem = fmt.Sprintf("exit %d", code)
	}
	if len(problem) > 300 {
		problem = problem[:300]
	}
	return problem, out, dur
}

// genSelfTest generates n Safe programs per option combination, runs them and reports the failures.
func genSelfTest(seed int64, n int) int {
	dir, _ := os.MkdirTemp("", "pgself")
	defer os.RemoveAll(dir)
	fails := 0
	total := map[string]int{}
	var maxDur time.Duration
	lines, progs := 0, 0
	for ci, o := range pgSelfTestCombos {
		r := rand.New(rand.NewSource(seed*1000 + int64(ci)))
		for i := 0; i < n; i++ {
			src, feat := GenProgram(r, o)
			problem, out, dur := pgRunSafe(dir, src, feat, false)
			if problem == "" {
				// second run with run-time checks of the facts the generator relies on
				p2, out2, _ := pgRunSafe(dir, src, feat, true)
				if p2 == "" && out2 != out {
					p2 = "different output"
				}
				if p2 != "" {
					problem = "strict run: " + p2
				}
			}
			for k := range feat {
				total[k]++
			}
			progs++
			lines += strings.Count(src, "\n")
			if dur > maxDur {
				maxDur = dur
			}
			if problem == "" && dur > 2*time.Second {
				problem = fmt.Sprintf("slow (%v)", dur)
			}
			if problem != "" {
				fails++
				fmt.Fprintf(os.Stderr, "=== FAIL combo %d program %d: %s\n%s", ci, i, problem, src)
			}
		}
	}
	keys := []string{}
	for k := range total {
		keys = append(keys, k)
	}
	sort.Strings(keys)
	fmt.Fprintf(os.Stderr, "gen-selftest: %d programs, %d failures, %.1f lines on average, slowest run %v\n", progs, fails, float64(lines)/float64(pgMax(progs, 1)), maxDur)
	for _, k := range keys {
		fmt.Fprintf(os.Stderr, "  %-22s %5d programs\n", k, total[k])
	}
	return fails
}

// ---- hand-written shapes (each with its own feature key) ----

// fnName yields a function name that is not in use, preferring the given ones.
func (g *pgGen) fnName(pref ...string) string {
	taken := func(n string) bool {
		for _, fn := range g.funcs {
			if fn.name == n {
				return true
			}
		}
		return g.fn != nil && g.fn.name == n || g.fnTaken[n]
	}
	start := g.rn(len(pref))
	for i := range pref {
		if n := pref[(start+i)%len(pref)]; !taken(n) {
			g.fnTaken[n] = true
			return n
		}
	}
	for i := 2; ; i++ {
		if n := fmt.Sprintf("%s%d", pref[start], i); !taken(n) {
			g.fnTaken[n] = true
			return n
		}
	}
}

// handOpen starts a hand-written function and reserves fresh parameter names.
func (g *pgGen) handOpen(name string, ptys []pgTy, ret string) []string {
	g.push()
	names, sig := []string{}, []string{}
	for _, t := range ptys {
		n := g.fresh(names...)
		names = append(names, n)
		g.define(&pgSym{name: n, ty: t, hidden: true}, pgCtx{mult: 1})
		sig = append(sig, n+" "+t.String())
	}
	if ret != "" {
		ret = " " + ret
	}
	g.line(0, "func "+name+"("+strings.Join(sig, ", ")+")"+ret+" {")
	g.f("func")
	return names
}

// handLocal reserves a fresh name for a local variable of a hand-written body.
func (g *pgGen) handLocal(ty pgTy) string {
	n := g.fresh()
	g.define(&pgSym{name: n, ty: ty, hidden: true}, pgCtx{mult: 1})
	return n
}

func (g *pgGen) handClose() {
	g.pop()
	g.line(0, "}")
}

// regFunc makes a hand-written function callable by the generic machinery.
func (g *pgGen) regFunc(name string, params []*pgSym, rets []pgRet, budget int, cost int, effects bool, writes ...*pgSym) *pgFunc {
	fn := &pgFunc{name: name, params: params, rets: rets, budget: budget, cost: cost, effects: effects, writes: map[*pgSym]bool{}}
	for _, w := range writes {
		fn.writes[w] = true
	}
	g.funcs = append(g.funcs, fn)
	return fn
}

func pgIntParam(abs int) *pgSym { return &pgSym{ty: pgInt, abs: abs, cur: abs, hi: abs, fac: 1} }

// spend accounts n executions of a hand-written call of fn at position c.
func (g *pgGen) spend(fn *pgFunc, c pgCtx, n int) {
	fn.budget -= n * c.mult
	fn.called++
	g.tick(c, n*fn.cost)
	for i := 0; i < n; i++ {
		g.f("call")
	}
	if g.fn != nil {
		g.fn.effects = g.fn.effects || fn.effects
		for s := range fn.writes {
			g.fn.writes[s] = true
		}
	}
}

// relTarget yields an int variable that may be increased by d here (a fresh one if none has the room).
func (g *pgGen) relTarget(c pgCtx, d int) *pgSym {
	l := g.writable(pgInt)
	for try := 0; try < 4 && len(l) > 0; try++ {
		s := l[g.rn(len(l))]
		if m := g.relMult(s, c); (s.cur+m*d)*s.fac <= s.hi {
			s.cur += m * d
			g.wrote(s)
			return s
		}
	}
	n := g.fresh()
	g.line(g.ind(c), n+" := "+fmt.Sprint(g.rn(10)))
	s := g.define(g.newInt(n, 9), c)
	s.cur += d
	return s
}

func (g *pgGen) ref(s *pgSym) pgExpr {
	return pgExpr{s: s.name, prec: 6, bnd: g.intBound(s)}
}

// shape emits one hand-written shape; its own loops are not subject to the line budget.
func (g *pgGen) shape(sh func(pgCtx) bool, c pgCtx) bool {
	g.force = true
	ok := sh(c)
	g.force = false
	return ok
}

// idMultiRef: multi-target statements whose right-hand sides reference earlier targets.
func (g *pgGen) idMultiRef(c pgCtx) bool {
	in := g.ind(c)
	k := g.rn(5)
	if k == 4 && (g.maxIter(c) < 2 || c.depth+1 >= g.o.MaxDepth) {
		k = g.rn(4)
	}
	switch k {
	case 0, 1:
		d := 1 + g.rn(3)
		n := g.relTarget(c, d)
		inc := n.name + " + " + fmt.Sprint(d)
		if !g.o.Strings {
			// n, t = n + d, (n) * 2
			t := g.pick(g.writable(pgInt))
			if t == nil || t == n {
				tn := g.fresh()
				g.line(in, "var "+tn+" int")
				t = g.define(g.newInt(tn, 99), c)
			}
			v := g.bin(pgParen(g.ref(n)), "*", 5, pgExpr{s: "2", prec: 6})
			v.bnd = 2 * g.intBound(n)
			v = g.fit(v, t.abs)
			g.line(in, fmt.Sprintf("%s, %s = %s, %s", n.name, t.name, inc, v.s))
			g.wrote(t)
			break
		}
		pre := ""
		if k == 1 {
			pre = g.strText(1 + g.rn(2))
		}
		need := 7 + len(pre)
		var s *pgSym
		for _, cand := range g.writable(pgStr) {
			if cand.abs >= need && cand.minLen <= 1+len(pre) {
				s = cand
			}
		}
		if s == nil {
			sn := g.fresh()
			l := g.strLit(0, 3)
			g.line(in, sn+" := "+l.s)
			s = g.define(g.newStr(sn, l), c)
			s.abs, s.minLen = pgMax(s.abs, need), pgMin(s.minLen, 1)
			s.hi, s.cur = pgMax(s.hi, s.abs), s.abs
		}
		val := "itoa(" + n.name + ")"
		if g.p(30) {
			val = "itoa((" + n.name + "))"
		}
		if pre != "" {
			val = `"` + pre + `" + ` + val
		}
		g.line(in, fmt.Sprintf("%s, %s = %s, %s", n.name, s.name, inc, val))
		g.wrote(s)
		g.f("itoa")
	case 2:
		// a, b = (b), (a)
		ty := []pgTy{pgInt, pgInt, pgBool, pgStr}[g.rn(4)]
		n1 := g.fresh()
		n2 := g.fresh(n1)
		e1, e2 := g.genExpr(ty, c, 1), g.genExpr(ty, c, 1)
		g.line(in, fmt.Sprintf("%s, %s := %s, %s", n1, n2, e1.s, e2.s))
		e1.bnd, e1.minLen, e1.dirty = pgMax(e1.bnd, e2.bnd), pgMin(e1.minLen, e2.minLen), e1.dirty || e2.dirty
		s1 := g.define(g.newSym(n1, ty, e1), c)
		s2 := *s1
		s2.name = n2
		g.define(&s2, c)
		s1.cur, s2.cur = s1.hi, s2.hi
		l, r := "("+n2+")", "("+n1+")"
		if g.p(30) {
			r = n1
		}
		g.line(in, fmt.Sprintf("%s, %s = %s, %s", n1, n2, l, r))
		g.line(in, fmt.Sprintf("print(%s, %s)", n1, n2))
		if g.fn != nil && g.fnPure {
			g.out = g.out[:len(g.out)-1]
		}
		g.f("swap")
	case 3:
		// x, y, z = y, z, x
		ns := []string{}
		es := []string{}
		bnd := 0
		for i := 0; i < 3; i++ {
			ns = append(ns, g.fresh(ns...))
			e := g.fit(g.genInt(c, 1), 99)
			bnd = pgMax(bnd, e.bnd)
			es = append(es, e.s)
		}
		g.line(in, strings.Join(ns, ", ")+" := "+strings.Join(es, ", "))
		for _, n := range ns {
			s := g.define(g.newInt(n, pgMax(bnd, 99)), c)
			s.abs, s.cur = pgMax(bnd, 99), s.hi
		}
		rot := fmt.Sprintf("%s, %s, %s = %s, %s, %s", ns[0], ns[1], ns[2], ns[1], ns[2], ns[0])
		if g.p(30) {
			rot = fmt.Sprintf("%s, %s, %s = %s, %s, (%s)", ns[0], ns[1], ns[2], ns[1], ns[2], ns[0])
		}
		pr := "print(" + strings.Join(ns, ", ") + ")"
		pure := g.fn != nil && g.fnPure
		if g.maxIter(c) >= 2 && g.p(50) {
			g.push()
			r := g.fresh()
			g.define(g.counter(r, 0, 1), c)
			g.line(in, fmt.Sprintf("for %s := 0; %s < 2; %s++ {", r, r, r))
			g.line(in+1, rot)
			if !pure {
				g.line(in+1, pr)
			}
			g.line(in, "}")
			g.pop()
			g.construct(c, "for3")
			g.tick(c, 4)
		} else {
			g.line(in, rot)
			if !pure {
				g.line(in, pr)
			}
		}
	default:
		// for i := 0; i < N; i, k = i + 1, (i) {
		n := 2 + g.rn(pgMin(g.maxIter(c), 4)-1)
		kn := g.fresh()
		g.line(in, kn+" := 0")
		ks := g.define(g.counter(kn, 0, pgMax(n-2, 0)), c)
		g.push()
		iname := g.fresh()
		g.define(g.counter(iname, 0, n-1), c)
		prev := "(" + iname + ")"
		if g.p(30) {
			prev = iname + " * 1"
		}
		g.line(in, fmt.Sprintf("for %s := 0; %s < %d; %s, %s = %s + 1, %s {", iname, iname, n, iname, kn, iname, prev))
		g.construct(c, "for3")
		ci := g.loopCtx(c, n)
		g.body(ci, func() {
			if !(g.fn != nil && g.fnPure) {
				g.line(g.ind(ci), fmt.Sprintf("print(%s, %s)", iname, kn))
			}
		}, false)
		g.pop()
		g.line(in, "}")
		g.release(ks, n)
	}
	g.tick(c, 2)
	g.f("multi_rhs_ref")
	return true
}

// idMultiNested: a multi-target assignment whose later value calls a function that itself
// executes a multi-target assignment (directly or through a nested call).
func (g *pgGen) idMultiNested(c pgCtx) bool {
	if !g.o.Funcs {
		return false
	}
	fname := g.fnName("smaller", "lower", "least", "order")
	ps := g.handOpen(fname, []pgTy{pgInt, pgInt}, "int")
	u, v := ps[0], ps[1]
	switch g.rn(3) {
	case 0:
		g.line(1, fmt.Sprintf("if %s > %s {", u, v))
		g.line(2, fmt.Sprintf("%s, %s = %s, %s", u, v, v, u))
		g.line(1, "}")
		g.line(1, "return "+u)
		g.f("if")
		g.f("swap")
	case 1:
		g.line(1, fmt.Sprintf("%s, %s = %s, (%s) %% 50 + 1", u, v, v, u))
		g.line(1, fmt.Sprintf("return (%s - %s) %% 100", u, v))
		g.f("assign_multi")
	default:
		t := g.handLocal(pgInt)
		g.line(1, fmt.Sprintf("var %s int", t))
		g.line(1, fmt.Sprintf("%s, %s = %s, %s", t, u, u, v))
		g.line(1, fmt.Sprintf("return (%s + %s) %% 1000", t, u))
		g.f("assign_multi")
	}
	g.handClose()
	fn := g.regFunc(fname, []*pgSym{pgIntParam(999), pgIntParam(999)}, []pgRet{{ty: pgInt, abs: 999}}, 8, 4, false)
	callee, arity := fn, 2
	if g.p(40) {
		wname := g.fnName("outer", "wrap", "via", "relay")
		ps := g.handOpen(wname, []pgTy{pgInt}, "int")
		r := g.handLocal(pgInt)
		g.line(1, fmt.Sprintf("%s := %s(%s, %d) + 1", r, fname, ps[0], g.rn(10)))
		g.line(1, "return "+r)
		g.handClose()
		fn.budget -= 3
		fn.called++
		g.f("call")
		callee, arity = g.regFunc(wname, []*pgSym{pgIntParam(999)}, []pgRet{{ty: pgInt, abs: 1000}}, 3, 6, false), 1
	}
	n1 := g.fresh()
	n2 := g.fresh(n1)
	e1, e2 := g.fit(g.genInt(c, 1), 99), g.fit(g.genInt(c, 1), 99)
	g.line(0, fmt.Sprintf("%s, %s := %s, %s", n1, n2, e1.s, e2.s))
	a, b := g.define(g.newInt(n1, 1000), c), g.define(g.newInt(n2, 1000), c)
	arg := func(s *pgSym) string { return g.fit(g.ref(s), 999).s }
	call := func(x, y string) string {
		g.spend(callee, c, 1)
		if arity == 1 {
			return callee.name + "(" + x + ")"
		}
		return callee.name + "(" + x + ", " + y + ")"
	}
	first := g.bin(g.ref(b), "+", 4, pgExpr{s: fmt.Sprint(1 + g.rn(20)), prec: 6})
	first.bnd = g.intBound(b) + 20
	first = g.fit(first, 99)
	switch g.rn(3) {
	case 0:
		g.line(0, fmt.Sprintf("%s, %s = %s, %s", a.name, b.name, first.s, call(fmt.Sprint(g.rn(10)), fmt.Sprint(g.rn(10)))))
	case 1:
		g.line(0, fmt.Sprintf("%s, %s = %s, %s", a.name, b.name, first.s, call(arg(a), arg(b))))
	default:
		n3 := g.fresh()
		g.line(0, "var "+n3+" int")
		x := g.define(g.newInt(n3, 1000), c)
		g.line(0, fmt.Sprintf("%s, %s, %s = %s, %s, %s", a.name, b.name, x.name, first.s, call(arg(a), fmt.Sprint(g.rn(10))), call(arg(b), arg(a))))
	}
	g.line(0, fmt.Sprintf("print(%s, %s)", a.name, b.name))
	g.tick(c, 3)
	g.f("assign_multi")
	g.f("multi_nested_call")
	return true
}

// idEmptyBranch: an if chain or switch whose non-first branch is empty, is followed by further
// branches and is the one taken for some value of a loop counter.
func (g *pgGen) idEmptyBranch(c pgCtx) bool {
	if c.depth+1 >= g.o.MaxDepth {
		return false
	}
	in := g.ind(c)
	var cv *pgSym
	own := false
	ci := c
	if l := g.symsOf(pgInt, func(s *pgSym) bool { return s.cnt && s.chi-s.lo >= 2 }); len(l) > 0 && g.p(50) {
		cv = l[g.rn(len(l))]
	} else {
		mx := g.maxIter(c)
		if mx < 3 {
			return false
		}
		n := 3 + g.rn(pgMin(mx, 5)-2)
		g.push()
		cv = g.define(g.counter(g.fresh(), 0, n-1), c)
		g.line(in, fmt.Sprintf("for %s := 0; %s < %d; %s++ {", cv.name, cv.name, n, cv.name))
		g.construct(c, "for3")
		ci = g.loopCtx(c, n)
		own = true
	}
	in2 := g.ind(ci)
	// distinct values of the counter: first branch, empty branch, optional third branch
	span := cv.chi - cv.lo + 1
	off := g.r.Perm(span)
	vals := []int{cv.lo + off[0], cv.lo + off[1]}
	if span >= 4 && g.p(50) {
		vals = append(vals, cv.lo+off[2])
	}
	cb := g.inner(ci)
	switch form := g.rn(3); form {
	case 0:
		g.construct(ci, "if")
		for i, v := range vals {
			cond := fmt.Sprintf("%s == %d", cv.name, v)
			if i == 0 {
				g.line(in2, "if "+cond+" {")
			} else {
				g.line(in2, "} else if "+cond+" {")
				g.f("elseif")
			}
			if i != 1 {
				g.body(cb, nil, false)
			}
		}
		g.line(in2, "} else {")
		g.f("else")
		g.body(cb, nil, false)
		g.line(in2, "}")
	default:
		cb.brk = false
		if form == 1 {
			g.line(in2, "switch "+cv.name+" {")
			g.construct(ci, "switch")
		} else {
			g.line(in2, "switch {")
			g.construct(ci, "switch_notag")
		}
		for i, v := range vals {
			if form == 1 {
				g.line(in2, fmt.Sprintf("case %d:", v))
			} else {
				g.line(in2, fmt.Sprintf("case %s == %d:", cv.name, v))
			}
			g.f("case")
			if i != 1 {
				g.body(cb, nil, false)
			}
		}
		g.line(in2, "default:")
		g.f("default")
		g.body(cb, nil, false)
		g.line(in2, "}")
	}
	if own {
		g.pop()
		g.line(in, "}")
	}
	g.f("empty_branch_mid")
	return true
}

// idLenPair: two len() calls in one expression.
func (g *pgGen) idLenPair(c pgCtx) bool {
	if !g.o.Strings && !g.o.Slices {
		return false
	}
	in := g.ind(c)
	ok := func(s *pgSym) bool {
		return (s.ty == pgStr && g.o.Strings) || (s.ty.isSlice() && g.o.Slices)
	}
	l := g.visible(ok)
	for len(l) < 2 {
		n := g.fresh()
		ty := pgStr
		if g.o.Slices && (!g.o.Strings || g.p(60)) {
			ty = []pgTy{pgSInt, pgSStr, pgSBool}[g.rn(3)]
		}
		e := g.genExpr(ty, c, 1)
		g.line(in, n+" := "+e.s)
		l = append(l, g.define(g.newSym(n, ty, e), c))
	}
	i := g.rn(len(l))
	j := (i + 1 + g.rn(len(l)-1)) % len(l)
	a, b := l[i], l[j]
	bound := func(s *pgSym) int {
		if s.ty == pgStr {
			return s.hi
		}
		return pgLMax
	}
	la := pgExpr{s: "len(" + a.name + ")", prec: 6, bnd: bound(a)}
	lb := pgExpr{s: "len(" + b.name + ")", prec: 6, bnd: bound(b)}
	pure := g.fn != nil && g.fnPure
	k := g.rn(5)
	if k == 3 && c.depth+1 >= g.o.MaxDepth {
		k = 4
	}
	if pure && (k == 0 || k == 4) {
		k = 1
	}
	switch k {
	case 0:
		g.line(in, "print("+la.s+", "+lb.s+")")
		g.f("print")
	case 1:
		n := g.fresh()
		op := []string{"-", "+", "*"}[g.rn(3)]
		g.line(in, n+" := "+la.s+" "+op+" "+lb.s)
		g.define(g.newInt(n, pgMax(la.bnd*lb.bnd, la.bnd+lb.bnd)), c)
	case 2:
		n := g.fresh()
		cmp := g.bin(la, pgCmpOps[g.rn(6)], 3, lb)
		if g.p(40) {
			cmp = g.bin(cmp, "||", 1, g.bin(la, pgCmpOps[g.rn(6)], 3, g.intLit()))
		}
		g.line(in, n+" := "+cmp.s)
		g.define(&pgSym{name: n, ty: pgBool}, c)
	case 3:
		g.construct(c, "if")
		g.line(in, "if "+g.bin(la, pgCmpOps[2+g.rn(4)], 3, lb).s+" {")
		g.body(g.inner(c), nil, true)
		if g.p(50) {
			g.line(in, "} else {")
			g.f("else")
			g.body(g.inner(c), nil, true)
		}
		g.line(in, "}")
	default:
		g.line(in, "print("+la.s+" > "+lb.s+", "+la.s+" - "+lb.s+")")
		g.f("print")
	}
	g.tick(c, 1)
	g.f("len_pair")
	return true
}

// sliceLoopBody writes the body of the slice_in_loop shape: a slice created per iteration, an alias
// kept from the first iteration, reads and writes through both and a re-declared empty slice that grows.
// It returns an int expression over the iteration's slices (for accumulation).
func (g *pgGen) sliceLoopBody(in int, ety pgTy, iv string, keep string, quiet bool) string {
	ty := ety.sliceOf()
	s := g.handLocal(ty)
	e := g.handLocal(ty)
	lit := func(i int) string {
		switch ety {
		case pgInt:
			return []string{iv, iv + " * 2", fmt.Sprint(g.rn(20)), iv + " + " + fmt.Sprint(1+g.rn(9))}[g.rn(4)]
		case pgBool:
			return []string{iv + " > 0", "true", "false", iv + " % 2 == 0"}[g.rn(4)]
		}
		return []string{`"` + g.strText(1+g.rn(2)) + `"`, "itoa(" + iv + ")"}[g.rn(2)]
	}
	n := 2 + g.rn(2)
	el := []string{}
	for i := 0; i < n; i++ {
		el = append(el, lit(i))
	}
	if g.p(70) {
		g.line(in, fmt.Sprintf("%s := %s{%s}", s, ty, strings.Join(el, ", ")))
	} else {
		g.line(in, fmt.Sprintf("var %s = %s{%s}", s, ty, strings.Join(el, ", ")))
	}
	g.f("slice_lit")
	g.line(in, fmt.Sprintf("if %s == 0 {", iv))
	g.line(in+1, keep+" = "+s)
	g.line(in, "}")
	g.f("if")
	g.f("slice_alias")
	switch ety {
	case pgInt:
		g.line(in, fmt.Sprintf("%s[0] = %s[0] + %d", s, s, 1+g.rn(20)))
		g.line(in, fmt.Sprintf("%s[1] = %s[1] + 1", keep, keep))
	case pgBool:
		g.line(in, fmt.Sprintf("%s[0] = !%s[0]", s, s))
		g.line(in, fmt.Sprintf("%s[1] = %s[1] != %s[1]", keep, keep, s))
	default:
		g.line(in, fmt.Sprintf("%s[0] = %s[0] + \"%s\"", s, s, g.strText(1)))
		g.line(in, fmt.Sprintf("%s[1] = %s[1] + \"%s\"", keep, keep, g.strText(1)))
		g.f("concat")
	}
	g.f("slice_set")
	g.f("index")
	g.line(in, fmt.Sprintf("var %s %s", e, ty))
	if g.p(50) {
		g.line(in, fmt.Sprintf("%s[len(%s)] = %s", e, e, lit(0)))
		g.line(in, fmt.Sprintf("%s[len(%s)] = %s[0]", e, e, s))
	} else {
		g.line(in, fmt.Sprintf("%s[0] = %s", e, lit(0)))
		g.line(in, fmt.Sprintf("%s[%d] = %s[1]", e, 1+g.rn(2), keep))
	}
	g.f("slice_grow")
	if !quiet {
		g.line(in, fmt.Sprintf("print(%s, %s[0], %s[1], %s[0], %s[1], len(%s), %s[0], %s[1])", iv, s, s, keep, keep, e, e, e))
		g.f("print")
	}
	if ety == pgInt {
		return fmt.Sprintf("%s[0] %% 10 + len(%s)", keep, e)
	}
	return fmt.Sprintf("len(%s) + len(%s)", s, e)
}

// idSliceInLoop: slices created inside a top-level loop and/or inside a loop of a function.
func (g *pgGen) idSliceInLoop(c pgCtx) bool {
	if !g.o.Slices || c.depth != 0 || g.fn != nil {
		return false
	}
	ety := []pgTy{pgInt, pgInt, pgStr, pgBool}[g.rn(3+1)]
	ty := ety.sliceOf()
	where := g.rn(3) // 0 top level, 1 function, 2 both
	if !g.o.Funcs {
		where = 0
	}
	if where != 1 {
		n := 2 + g.rn(3)
		kn := g.fresh()
		g.line(0, fmt.Sprintf("var %s %s", kn, ty))
		keep := g.define(&pgSym{name: kn, ty: ty}, c)
		keep.ro++
		g.push()
		iv := g.fresh()
		g.define(g.counter(iv, 0, n-1), c)
		g.line(0, fmt.Sprintf("for %s := 0; %s < %d; %s++ {", iv, iv, n, iv))
		g.construct(c, "for3")
		g.sliceLoopBody(1, ety, iv, kn, false)
		g.line(0, "}")
		g.pop()
		keep.ro--
		g.raise(keep, 2)
		g.tick(c, n*9)
	}
	if where != 0 {
		fname := g.fnName("build", "scan", "fill", "mkall")
		quiet := !g.o.Effects
		ps := g.handOpen(fname, []pgTy{pgInt}, "int")
		kp := g.handLocal(ty)
		t := g.handLocal(pgInt)
		j := g.handLocal(pgInt)
		g.line(1, fmt.Sprintf("var %s %s", kp, ty))
		g.line(1, t+" := 0")
		g.line(1, fmt.Sprintf("for %s := 0; %s < %s; %s++ {", j, j, ps[0], j))
		g.f("for3")
		acc := g.sliceLoopBody(2, ety, j, kp, quiet)
		g.line(2, t+" += "+acc)
		g.f("compound")
		g.line(1, "}")
		g.line(1, "return "+t)
		g.handClose()
		fn := g.regFunc(fname, []*pgSym{pgIntParam(3)}, []pgRet{{ty: pgInt, abs: 99}}, 2, 3*11+3, !quiet)
		g.spend(fn, c, 1)
		arg := 1 + g.rn(3)
		if g.p(50) {
			g.line(0, fmt.Sprintf("print(%s(%d))", fname, arg))
		} else {
			n := g.fresh()
			g.line(0, fmt.Sprintf("%s := %s(%d)", n, fname, arg))
			g.define(g.newInt(n, 99), c)
		}
	}
	g.f("slice_in_loop")
	return true
}

// idBigCopy: slices of 11..25 elements and strings of 11..30 bytes with two-digit lengths and indices.
func (g *pgGen) idBigCopy(c pgCtx) bool {
	if c.depth != 0 || g.fn != nil || (!g.o.Slices && !g.o.Strings) {
		return false
	}
	doSlice := g.o.Slices && (!g.o.Strings || g.p(65))
	doStr := g.o.Strings && (!doSlice || g.p(35))
	if doSlice {
		ety := []pgTy{pgInt, pgInt, pgStr, pgBool}[g.rn(4)]
		ty := ety.sliceOf()
		L := 11 + g.rn(15)
		elem := func() string {
			switch ety {
			case pgInt:
				return fmt.Sprint(g.rn(100) - 10)
			case pgBool:
				return []string{"true", "false"}[g.rn(2)]
			}
			return `"` + g.strText(1+g.rn(2)) + `"`
		}
		el := []string{}
		for i := 0; i < L; i++ {
			el = append(el, elem())
		}
		src := g.fresh()
		g.define(&pgSym{name: src, ty: ty, hidden: true}, c)
		dst := g.fresh()
		g.define(&pgSym{name: dst, ty: ty, hidden: true}, c)
		g.line(0, fmt.Sprintf("%s := %s{%s}", src, ty, strings.Join(el, ", ")))
		g.f("slice_lit")
		if g.p(50) {
			g.line(0, fmt.Sprintf("var %s %s", dst, ty))
		} else {
			d := []string{}
			for i, n := 0, g.rn(L+1); i < n; i++ {
				d = append(d, elem())
			}
			g.line(0, fmt.Sprintf("%s := %s{%s}", dst, ty, strings.Join(d, ", ")))
		}
		i1, i2 := 10+g.rn(L-10), 10+g.rn(L-10)
		if g.p(50) {
			n := g.fresh()
			g.line(0, fmt.Sprintf("%s := copy(%s, %s)", n, dst, src))
			g.define(g.newInt(n, 30), c)
			g.line(0, fmt.Sprintf("print(%s, len(%s), %s[%d], %s[%d])", n, dst, dst, i1, src, i2))
		} else {
			g.line(0, fmt.Sprintf("copy(%s, %s)", dst, src))
			g.line(0, fmt.Sprintf("print(len(%s), len(%s), %s[%d], %s[%d])", dst, src, dst, i1, src, i2))
		}
		g.f("copy")
		top := L + g.rn(3)
		g.line(0, fmt.Sprintf("%s[%d] = %s", dst, top, elem()))
		g.line(0, fmt.Sprintf("%s[%d] = %s[%d]", src, 10+g.rn(L-10), dst, top))
		g.f("slice_grow")
		g.f("slice_set")
		acc := ""
		if ety == pgInt {
			acc = g.fresh()
			g.line(0, acc+" := 0")
			as := g.define(g.newInt(acc, 3000), c)
			as.cur = as.hi
		}
		g.push()
		iv := g.fresh()
		g.define(&pgSym{name: iv, ty: pgInt, hidden: true}, c)
		vv := g.fresh()
		g.define(&pgSym{name: vv, ty: ety, hidden: true}, c)
		g.line(0, fmt.Sprintf("for %s, %s := range %s {", iv, vv, dst))
		g.construct(c, "range_slice")
		if ety == pgInt {
			g.line(1, fmt.Sprintf("if %s >= 10 {", iv))
			g.line(2, fmt.Sprintf("%s += %s", acc, vv))
			g.line(1, "}")
			g.f("compound")
		} else {
			g.line(1, fmt.Sprintf("if %s >= 10 && %s %% 4 == 0 {", iv, iv))
			g.line(2, fmt.Sprintf("print(%s, %s)", iv, vv))
			g.line(1, "}")
		}
		g.f("if")
		g.line(0, "}")
		g.pop()
		g.line(0, fmt.Sprintf("print(len(%s), %s[%d])", dst, dst, L-1))
		if acc != "" {
			g.line(0, "print("+acc+")")
		}
		g.tick(c, 8+3*(top+1))
	}
	if doStr {
		n := 11 + g.rn(20)
		sn := g.fresh()
		g.line(0, fmt.Sprintf("%s := \"%s\"", sn, g.strText(n)))
		g.define(&pgSym{name: sn, ty: pgStr, abs: n, hi: n, cur: n, minLen: n}, c)
		i1 := 10 + g.rn(n-10)
		a := 10 + g.rn(n-10)
		b := a + g.rn(n-a+1)
		g.line(0, fmt.Sprintf("print(%s[%d], %s[%d:%d], %s[:%d], %s[%d:], len(%s))", sn, i1, sn, a, b, sn, 10+g.rn(n-9), sn, 10+g.rn(n-9), sn))
		g.f("subscript")
		g.push()
		iv := g.fresh()
		g.define(&pgSym{name: iv, ty: pgInt, hidden: true}, c)
		cv := g.fresh()
		g.define(&pgSym{name: cv, ty: pgStr, hidden: true}, c)
		g.line(0, fmt.Sprintf("for %s, %s := range %s {", iv, cv, sn))
		g.construct(c, "range_string")
		g.line(1, fmt.Sprintf("if %s >= 10 && %s %% %d == 0 {", iv, iv, 3+g.rn(4)))
		g.line(2, fmt.Sprintf("print(%s, %s, %s[%s])", iv, cv, sn, iv))
		g.line(1, "}")
		g.f("if")
		g.line(0, "}")
		g.pop()
		g.tick(c, 3+2*n)
	}
	g.f("print")
	g.f("big_copy")
	return true
}

// counterFn defines a global counter and a function that bumps it, prints and returns a small value.
func (g *pgGen) counterFn(c pgCtx, budget int) (*pgFunc, *pgSym, int) {
	cn := g.fresh()
	if g.p(50) {
		g.line(0, "var "+cn+" int")
	} else {
		g.line(0, cn+" := 0")
	}
	cnt := g.define(g.newInt(cn, 9), c)
	cnt.hi = pgMax(cnt.hi, cnt.abs+budget+50)
	cnt.cur += budget
	fname := g.fnName("next", "tick", "bump", "seq")
	g.handOpen(fname, nil, "int")
	if g.p(60) {
		g.line(1, cn+"++")
		g.f("incdec")
	} else {
		g.line(1, cn+" += 1")
		g.f("compound")
	}
	g.f("global_write_in_func")
	if g.p(70) {
		g.line(1, fmt.Sprintf("print(\"%s\", %s)", fname, cn))
		g.f("print_in_func")
	}
	m := 3 + g.rn(4)
	ret := pgRet{ty: pgInt, abs: m - 1}
	if g.p(75) {
		g.line(1, fmt.Sprintf("return %s %% %d", cn, m))
	} else {
		g.line(1, "return "+cn)
		ret.abs, m = cnt.hi, budget
	}
	g.handClose()
	return g.regFunc(fname, nil, []pgRet{ret}, budget, 3, true, cnt), cnt, m
}

// idSameCondChain: an else-if chain whose conditions compare the textually same effectful call.
func (g *pgGen) idSameCondChain(c pgCtx) bool {
	if !g.o.Funcs || !g.o.Effects || c.depth != 0 || g.fn != nil {
		return false
	}
	k := 2 + g.rn(2)
	n := 1
	if g.maxIter(c) >= 2 && g.p(75) {
		n = 2 + g.rn(pgMin(g.maxIter(c), 4)-1)
	}
	fn, _, m := g.counterFn(c, k*n+6)
	ci := c
	in := 0
	if n > 1 {
		g.push()
		iv := g.fresh()
		g.define(g.counter(iv, 0, n-1), c)
		g.line(0, fmt.Sprintf("for %s := 0; %s < %d; %s++ {", iv, iv, n, iv))
		g.construct(c, "for3")
		ci = g.loopCtx(c, n)
		in = 1
	}
	g.spend(fn, ci, k)
	g.construct(ci, "if")
	cb := g.inner(ci)
	for i := 0; i < k; i++ {
		cond := fmt.Sprintf("%s() == %d", fn.name, g.rn(pgMin(m, 9)+1))
		if i == 0 {
			g.line(in, "if "+cond+" {")
		} else {
			g.line(in, "} else if "+cond+" {")
			g.f("elseif")
		}
		g.body(cb, nil, true)
	}
	if g.p(75) {
		g.line(in, "} else {")
		g.f("else")
		g.body(cb, nil, true)
	}
	g.line(in, "}")
	if n > 1 {
		g.pop()
		g.line(0, "}")
	}
	g.f("same_cond_chain")
	return true
}

// idElseOnlyIf: an else block that consists of exactly one if statement, in a loop whose first
// iterations take the outer if branch.
func (g *pgGen) idElseOnlyIf(c pgCtx) bool {
	if c.depth != 0 || g.fn != nil || g.o.MaxDepth < 3 || g.maxIter(c) < 2 {
		return false
	}
	n := 2 + g.rn(pgMin(g.maxIter(c), 4)-1)
	var chk *pgFunc
	if g.o.Funcs && g.o.Effects {
		cn := g.fresh()
		g.line(0, "var "+cn+" int")
		cnt := g.define(g.newInt(cn, 9), c)
		budget := 3*n + 4
		cnt.hi = pgMax(cnt.hi, cnt.abs+3*budget+50)
		cnt.cur += 3 * budget
		fname := g.fnName("chk", "probe", "test", "odd")
		ps := g.handOpen(fname, []pgTy{pgInt}, "bool")
		g.line(1, cn+" += "+ps[0])
		g.line(1, fmt.Sprintf("print(\"%s\", %s)", fname, ps[0]))
		g.line(1, fmt.Sprintf("return %s %% 2 == 0", cn))
		g.f("compound")
		g.f("global_write_in_func")
		g.f("print_in_func")
		g.handClose()
		chk = g.regFunc(fname, []*pgSym{pgIntParam(3)}, []pgRet{{ty: pgBool}}, budget, 4, true, cnt)
	}
	g.push()
	iv := g.fresh()
	g.define(g.counter(iv, 0, n-1), c)
	g.line(0, fmt.Sprintf("for %s := 0; %s < %d; %s++ {", iv, iv, n, iv))
	g.construct(c, "for3")
	ci := g.loopCtx(c, n)
	outer := []string{fmt.Sprintf("%s < %d", iv, n-1), fmt.Sprintf("%s != %d", iv, g.rn(n)), iv + " % 2 == 0"}[g.rn(3)]
	g.construct(ci, "if")
	g.line(1, "if "+outer+" {")
	g.body(g.inner(ci), nil, false)
	g.line(1, "} else {")
	g.f("else")
	ce := g.inner(ci)
	g.push()
	cond := func() string {
		if chk == nil {
			return g.genCond(ce).s
		}
		g.spend(chk, ce, 1)
		arg := []string{"1", "2", "3", iv}[g.rn(4)]
		t := chk.name + "(" + arg + ")"
		switch g.rn(4) {
		case 0:
			t = "!" + t
		case 1:
			t += " && " + iv + " > 0"
		}
		return t
	}
	g.construct(ce, "if")
	g.line(2, "if "+cond()+" {")
	g.body(g.inner(ce), nil, true)
	if g.p(75) {
		g.line(2, "} else if "+cond()+" {")
		g.f("elseif")
		g.body(g.inner(ce), nil, true)
	}
	if g.p(35) {
		g.line(2, "} else {")
		g.f("else")
		g.body(g.inner(ce), nil, true)
	}
	g.line(2, "}")
	g.pop()
	g.line(1, "}")
	g.pop()
	g.line(0, "}")
	g.f("else_only_if")
	return true
}

// idCallStmtNested: a call statement whose result is unused with another call as argument.
func (g *pgGen) idCallStmtNested(c pgCtx) bool {
	if !g.o.Funcs || c.depth != 0 || g.fn != nil {
		return false
	}
	if g.p(50) {
		// two generated functions that fit together
		for _, fn := range g.callable(c, func(fn *pgFunc) bool { return len(fn.params) > 0 }) {
			fits := false
			for _, pa := range fn.params {
				fits = fits || len(g.callable(c, func(h *pgFunc) bool {
					return h != fn && len(h.rets) == 1 && h.rets[0].ty == pa.ty && h.rets[0].minLen >= pa.minLen && (pa.ty != pgStr || h.rets[0].abs <= pa.abs)
				})) > 0
			}
			if !fits {
				continue
			}
			g.nestWant, g.nestGot = true, false
			call := g.callText(fn, c)
			g.nestWant = false
			if g.nestGot {
				g.line(0, call.s)
				g.f("call_stmt")
				g.f("call_stmt_nested")
				return true
			}
			fn.budget += c.mult // not emitted
			fn.called--
			break
		}
	}
	dn := g.fnName("double", "twice", "half", "succ")
	ps := g.handOpen(dn, []pgTy{pgInt}, "int")
	eff := g.o.Effects && g.p(60)
	if eff {
		g.line(1, fmt.Sprintf("print(\"%s\", %s)", dn, ps[0]))
		g.f("print_in_func")
	}
	g.line(1, "return "+ps[0]+[]string{" * 2", " + " + ps[0], " / 2", " + 1"}[g.rn(4)])
	g.handClose()
	double := g.regFunc(dn, []*pgSym{pgIntParam(99)}, []pgRet{{ty: pgInt, abs: 999}}, 8, 2, eff)
	arg := func() string { return fmt.Sprint(g.rn(10)) }
	if g.p(50) {
		tn := g.fresh()
		g.line(0, "var "+tn+" int")
		tot := g.define(g.newInt(tn, 9), c)
		tot.hi = pgMax(tot.hi, tot.abs+6*999+50)
		tot.cur += 6 * 999
		an := g.fnName("add", "store", "keepSum", "push")
		valued := g.o.Effects && g.p(60)
		ret := ""
		if valued {
			ret = "int"
		}
		ps := g.handOpen(an, []pgTy{pgInt}, ret)
		g.line(1, tn+" += "+ps[0])
		g.f("compound")
		g.f("global_write_in_func")
		rets := []pgRet{}
		if valued {
			g.line(1, "return "+tn+" % 1000")
			rets = []pgRet{{ty: pgInt, abs: 999}}
		}
		g.handClose()
		add := g.regFunc(an, []*pgSym{pgIntParam(999)}, rets, 6, 2, true, tot)
		g.spend(double, c, 1)
		g.spend(add, c, 1)
		g.line(0, fmt.Sprintf("%s(%s(%s))", an, dn, arg()))
		if valued && g.p(50) {
			g.spend(double, c, 1)
			g.spend(add, c, 2)
			g.line(0, fmt.Sprintf("%s(%s(%s(%s)))", an, an, dn, arg()))
			g.f("call_stmt")
		}
		g.line(0, "print("+tn+")")
	} else {
		nn := g.fnName("name", "label", "tag", "title")
		ps := g.handOpen(nn, []pgTy{pgInt}, "string")
		g.line(1, fmt.Sprintf("return \"%s\" + itoa(%s)", g.strText(1+g.rn(2)), ps[0]))
		g.handClose()
		name := g.regFunc(nn, []*pgSym{pgIntParam(999)}, []pgRet{{ty: pgStr, abs: 7, minLen: 2}}, 6, 1, false)
		tn := g.fnName("note", "show", "report", "log2")
		ps = g.handOpen(tn, []pgTy{pgStr, pgInt}, "")
		g.line(1, fmt.Sprintf("print(\"%s\", %s, %s)", tn, ps[0], ps[1]))
		g.f("print_in_func")
		g.handClose()
		note := g.regFunc(tn, []*pgSym{{ty: pgStr, abs: 10, hi: 10, cur: 10, fac: 1}, pgIntParam(999)}, nil, 6, 1, true)
		g.spend(name, c, 1)
		g.spend(double, c, 1)
		g.spend(note, c, 1)
		g.line(0, fmt.Sprintf("%s(%s(%s), %s(%s))", tn, nn, arg(), dn, arg()))
	}
	g.f("call_as_arg")
	g.f("call_stmt")
	g.f("call_stmt_nested")
	g.tick(c, 2)
	return true
}

// idLoopCallsLoopFn: a three-clause loop calling a function with a condition-only loop, or vice versa.
func (g *pgGen) idLoopCallsLoopFn(c pgCtx) bool {
	if !g.o.Funcs || c.depth != 0 || g.fn != nil || g.maxIter(c) < 2 {
		return false
	}
	n := 2 + g.rn(pgMin(g.maxIter(c), 4)-1)
	pure := !g.o.Effects
	if g.p(50) {
		// callee: for n > 0 { }, caller: three-clause loop
		fname := g.fnName("drain", "steps", "halve", "down")
		ps := g.handOpen(fname, []pgTy{pgInt}, "int")
		cv := g.handLocal(pgInt)
		st := 1 + g.rn(3)
		g.line(1, cv+" := 0")
		g.line(1, fmt.Sprintf("for %s > 0 {", ps[0]))
		g.line(2, fmt.Sprintf("%s -= %d", ps[0], st))
		g.line(2, cv+"++")
		if !pure && g.p(40) {
			g.line(2, fmt.Sprintf("print(\"%s\", %s)", fname, ps[0]))
			g.f("print_in_func")
		} else {
			pure = true
		}
		g.line(1, "}")
		g.line(1, "return "+cv)
		g.f("forcond")
		g.f("compound")
		g.f("incdec")
		g.handClose()
		fn := g.regFunc(fname, []*pgSym{pgIntParam(8)}, []pgRet{{ty: pgInt, abs: 8}}, n+3, 3*8+3, !pure)
		g.push()
		iv := g.fresh()
		g.define(g.counter(iv, 0, n-1), c)
		g.line(0, fmt.Sprintf("for %s := 0; %s < %d; %s++ {", iv, iv, n, iv))
		g.construct(c, "for3")
		ci := g.loopCtx(c, n)
		g.spend(fn, ci, 1)
		g.body(ci, func() {
			arg := []string{iv + " + " + fmt.Sprint(1+g.rn(4)), iv + " * 2", iv}[g.rn(3)]
			g.line(1, fmt.Sprintf("print(%s, %s(%s))", iv, fname, arg))
			g.f("print")
		}, false)
		g.pop()
		g.line(0, "}")
	} else {
		// callee: three-clause loop, caller: for m > 0 { }
		fname := g.fnName("tri", "total", "sumTo", "upto")
		ps := g.handOpen(fname, []pgTy{pgInt}, "int")
		t := g.handLocal(pgInt)
		j := g.handLocal(pgInt)
		g.line(1, t+" := 0")
		g.line(1, fmt.Sprintf("for %s := 0; %s < %s; %s++ {", j, j, ps[0], j))
		g.line(2, fmt.Sprintf("%s += %s", t, []string{j, j + " * 2", "2", j + " % 2"}[g.rn(4)]))
		g.line(1, "}")
		g.line(1, "return "+t)
		g.f("for3")
		g.f("compound")
		g.handClose()
		fn := g.regFunc(fname, []*pgSym{pgIntParam(5)}, []pgRet{{ty: pgInt, abs: 99}}, n+3, 5+3, false)
		mn := g.fresh()
		g.line(0, fmt.Sprintf("%s := %d", mn, n))
		m := g.define(g.counter(mn, 0, n-1), c)
		g.line(0, fmt.Sprintf("for %s > 0 {", mn))
		g.construct(c, "forcond")
		ci := g.loopCtx(c, n)
		g.spend(fn, ci, 1)
		g.body(ci, func() {
			g.line(1, mn+"--")
			g.f("incdec")
			g.f("minus_minus")
			g.line(1, fmt.Sprintf("print(%s, %s(%s + 1))", mn, fname, mn))
			g.f("print")
		}, false)
		g.line(0, "}")
		g.release(m, 1)
	}
	g.f("loop_calls_loopfn")
	return true
}

// useAllParams makes the body of fn use every parameter.
func (g *pgGen) useAllParams(fn *pgFunc, c pgCtx) {
	if !g.fnPure {
		args := []string{`"` + fn.name + `"`}
		for _, pa := range fn.params {
			if pa.ty.isSlice() {
				args = append(args, "len("+pa.name+")")
			} else {
				args = append(args, pa.name)
			}
		}
		g.line(1, "print("+strings.Join(args, ", ")+")")
		fn.effects = true
		g.f("print")
		g.f("print_in_func")
		fn.cost++
		return
	}
	terms, conds := []string{}, []string{}
	bnd := 0
	for _, pa := range fn.params {
		switch {
		case pa.ty == pgInt:
			terms = append(terms, pa.name)
			bnd += pa.hi
		case pa.ty == pgBool:
			conds = append(conds, pa.name)
		case pa.ty == pgStr:
			terms = append(terms, "len("+pa.name+")")
			bnd += pa.hi
		default:
			terms = append(terms, "len("+pa.name+")")
			bnd += pgLMax
		}
	}
	if len(terms) == 0 {
		terms = []string{"0"}
	}
	n := g.fresh()
	g.line(1, n+" := "+strings.Join(terms, " + "))
	s := g.define(g.newInt(n, bnd), c)
	if len(conds) > 0 {
		g.line(1, "if "+strings.Join(conds, " || ")+" {")
		g.line(2, n+"++")
		g.line(1, "}")
		s.cur++
		if s.cur > s.hi {
			s.hi = s.cur
		}
		g.f("if")
		g.f("incdec")
	}
	fn.cost += 2
}

// idManyParams: a function with nine parameters, all of them used, and a call of it.
func (g *pgGen) idManyParams(c pgCtx) bool {
	if !g.o.Funcs || c.depth != 0 || g.fn != nil {
		return false
	}
	fn := g.genFunc(9)
	if !g.canCall(fn, c) {
		return true
	}
	call := g.callText(fn, c)
	switch {
	case len(fn.rets) == 0:
		g.line(0, call.s)
		g.f("call_stmt")
	case len(fn.rets) == 1 && !fn.rets[0].ty.isSlice():
		g.line(0, "print("+call.s+")")
		g.f("print")
	default:
		names := []string{}
		syms := []*pgSym{}
		for _, rt := range fn.rets {
			n := g.fresh(names...)
			names = append(names, n)
			syms = append(syms, g.newSym(n, rt.ty, pgExpr{bnd: rt.abs, minLen: rt.minLen}))
		}
		g.line(0, strings.Join(names, ", ")+" := "+call.s)
		for _, s := range syms {
			g.define(s, c)
		}
		g.f("def_call")
	}
	return true
}
