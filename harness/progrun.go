package main

import (
	"crypto/sha256"
	"fmt"
	"os"
	"path/filepath"
	"strings"
	"time"

	"github.com/monstermichl/typeshell/converters/bash"
	"github.com/monstermichl/typeshell/converters/batch"
	"github.com/monstermichl/typeshell/parser"
	"github.com/monstermichl/typeshell/transpiler"
)

// A program case: <kind> <id> <hex main path> <files>, files = comma separated <hexpath>.<hexcontent>
// with paths under the virtual root /V (materialised in a scratch directory) or under the real std directory.
// The std files are always available (they live next to the harness binary).

const vroot = "/V"

func stdDir() string {
	exe, _ := os.Executable()
	return filepath.Join(filepath.Dir(exe), "std")
}

func filePrefix(content string) string {
	return fmt.Sprintf("i%x", sha256.Sum256([]byte(content)))[0:8]
}

type progFile struct{ path, content string }

func parseFiles(f string) []progFile {
	out := []progFile{}
	for _, e := range strings.Split(f, ",") {
		if e == "" {
			continue
		}
		p := strings.SplitN(e, ".", 3)
		out = append(out, progFile{unhx(p[0]), unhx(p[1])})
	}
	return out
}

// materialise writes the /V files below dir and returns the real path of the main file.
func materialise(dir string, main string, files []progFile) string {
	for _, pf := range files {
		if strings.HasPrefix(pf.path, vroot+"/") {
			real := filepath.Join(dir, strings.TrimPrefix(pf.path, vroot+"/"))
			os.MkdirAll(filepath.Dir(real), 0755)
			os.WriteFile(real, []byte(pf.content), 0644)
		}
	}
	return filepath.Join(dir, strings.TrimPrefix(main, vroot+"/"))
}

func withWatchdog(d time.Duration, f func() string) string {
	ch := make(chan string, 1)
	go func() {
		defer func() {
			if r := recover(); r != nil {
				ch <- "panic"
			}
		}()
		ch <- f()
	}()
	select {
	case s := <-ch:
		return s
	case <-time.After(d):
		return "timeout"
	}
}

func runParse(f []string) string {
	dir, _ := os.MkdirTemp("", "prs")
	defer os.RemoveAll(dir)
	real := materialise(dir, unhx(f[2]), parseFiles(f[3]))
	return withWatchdog(10*time.Second, func() string {
		p := parser.New()
		prog, err := p.Parse(real)
		if err != nil {
			if err.Error() == "" {
				return "err-empty"
			}
			return "err"
		}
		return "ok " + dstmts(prog.Body())
	})
}

func transpileTo(real string, target string) string {
	return withWatchdog(10*time.Second, func() string {
		var conv transpiler.Converter
		if target == "bash" {
			conv = bash.New()
		} else {
			conv = batch.New()
		}
		t := transpiler.New()
		out, err := t.Transpile(real, conv)
		if err != nil {
			if err.Error() == "" {
				return "err-empty"
			}
			if out != "" {
				return "err-with-script"
			}
			return "err"
		}
		return "ok:" + hx(out)
	})
}

func runEmit(f []string) string {
	dir, _ := os.MkdirTemp("", "emt")
	defer os.RemoveAll(dir)
	real := materialise(dir, unhx(f[2]), parseFiles(f[3]))
	b := transpileTo(real, "bash")
	w := transpileTo(real, "batch")
	bs, ws := "-", "-"
	if strings.HasPrefix(b, "ok:") {
		bs = bashSyntax(unhx(b[3:]))
	}
	if strings.HasPrefix(w, "ok:") {
		ws = batchSyntax(unhx(w[3:]))
	}
	return "bash=" + b + " batch=" + w + " bashsyntax=" + bs + " batchsyntax=" + ws
}

// progCase renders a case line body from a main source and extra files (paths relative to /V);
// the std files are appended when withStd is set.
func progFields(mainRel string, files map[string]string, withStd bool) []string {
	ents := []string{}
	keys := []string{}
	for k := range files {
		keys = append(keys, k)
	}
	sortStrings(keys)
	for _, k := range keys {
		ents = append(ents, hx(vroot+"/"+k)+"."+hx(files[k])+"."+hx(filePrefix(files[k])))
	}
	// the implementation looks the standard library up on the real file system: whenever a source may import
	// something, the library files must be part of the environment the model sees
	for _, k := range keys {
		if strings.Contains(files[k], "import") {
			withStd = true
		}
	}
	if withStd {
		for _, n := range []string{"strings.tsh", "os.tsh"} {
			b, err := os.ReadFile(filepath.Join(stdDir(), n))
			if err == nil {
				ents = append(ents, hx(filepath.Join(stdDir(), n))+"."+hx(string(b))+"."+hx(filePrefix(string(b))))
			}
		}
	}
	return []string{hx(vroot + "/" + mainRel), strings.Join(ents, ","), hx(stdDir())}
}
