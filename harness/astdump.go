package main

import (
	"fmt"
	"strings"

	"github.com/monstermichl/typeshell/parser"
)

// dumpAST renders the parser's result through exported accessors only, in the same S-expression
// syntax the OCaml driver prints for the model's AST.

func dvt(t parser.ValueType) string {
	d := map[parser.DataType]string{parser.DATA_TYPE_UNKNOWN: "u", parser.DATA_TYPE_MULTIPLE: "m", parser.DATA_TYPE_BOOLEAN: "b",
		parser.DATA_TYPE_INTEGER: "i", parser.DATA_TYPE_STRING: "s"}[t.DataType()]
	if d == "" {
		d = "?" + string(t.DataType())
	}
	if t.IsSlice() {
		return "[]" + d
	}
	return d
}

func dvts(ts []parser.ValueType) string {
	p := []string{}
	for _, t := range ts {
		p = append(p, dvt(t))
	}
	return "(" + strings.Join(p, " ") + ")"
}

func b01(b bool) string {
	if b {
		return "1"
	}
	return "0"
}

func dvar(v parser.Variable) string {
	return fmt.Sprintf("(v %s %s %s %s)", hx(v.Name()), dvt(v.ValueType()), b01(v.Global()), b01(v.Public()))
}

func dvars(vs []parser.Variable) string {
	p := []string{}
	for _, v := range vs {
		p = append(p, dvar(v))
	}
	return "(" + strings.Join(p, " ") + ")"
}

func dexprs(es []parser.Expression) string {
	p := []string{}
	for _, e := range es {
		p = append(p, dexpr(e))
	}
	return "(" + strings.Join(p, " ") + ")"
}

func dexpr(e parser.Expression) string {
	switch x := e.(type) {
	case nil:
		return "-"
	case parser.BooleanLiteral:
		return "(B " + b01(x.Value()) + ")"
	case parser.IntegerLiteral:
		return fmt.Sprintf("(I %d)", x.Value())
	case parser.StringLiteral:
		return "(S " + hx(x.Value()) + ")"
	case parser.UnaryOperation:
		return "(U " + dexpr(x.Expression()) + ")"
	case parser.BinaryOperation:
		return fmt.Sprintf("(Bin %s %s %s)", hx(x.Operator()), dexpr(x.Left()), dexpr(x.Right()))
	case parser.Comparison:
		return fmt.Sprintf("(Cmp %s %s %s)", hx(x.Operator()), dexpr(x.Left()), dexpr(x.Right()))
	case parser.LogicalOperation:
		return fmt.Sprintf("(Log %s %s %s)", hx(x.Operator()), dexpr(x.Left()), dexpr(x.Right()))
	case parser.VariableEvaluation:
		return "(V " + dvar(x.Variable) + ")"
	case parser.Group:
		return "(G " + dexpr(x.Child()) + ")"
	case parser.FunctionCall:
		return fmt.Sprintf("(Call %s %s %s)", hx(x.Name()), dvts(x.ReturnTypes()), dexprs(x.Args()))
	case parser.AppCall:
		p := []string{}
		for c := &x; c != nil; c = c.Next() {
			p = append(p, fmt.Sprintf("(%s %s)", hx(c.Name()), dexprs(c.Args())))
		}
		return "(App " + strings.Join(p, " ") + ")"
	case parser.SliceInstantiation:
		return fmt.Sprintf("(SI %s %s)", dvt(x.ValueType()), dexprs(x.Values()))
	case parser.SliceEvaluation:
		return fmt.Sprintf("(SE %s %s %s)", dexpr(x.Value()), dexpr(x.Index()), dvt(x.ValueType()))
	case parser.StringSubscript:
		end := "-"
		if x.HasEndIndex() {
			end = dexpr(x.EndIndex())
		}
		return fmt.Sprintf("(Sub %s %s %s)", dexpr(x.Value()), dexpr(x.StartIndex()), end)
	case parser.Len:
		return "(Len " + dexpr(x.Expression()) + ")"
	case parser.Input:
		return "(In " + dexpr(x.Prompt()) + ")"
	case parser.Copy:
		return fmt.Sprintf("(Copy %s %s)", dvar(x.Destination()), dexpr(x.Source()))
	case parser.Itoa:
		return "(Itoa " + dexpr(x.Value()) + ")"
	case parser.Exists:
		return "(Ex " + dexpr(x.Path()) + ")"
	case parser.Read:
		return "(Rd " + dexpr(x.Path()) + ")"
	}
	return fmt.Sprintf("(?expr %T)", e)
}

func dstmts(ss []parser.Statement) string {
	p := []string{}
	for _, s := range ss {
		p = append(p, dstmt(s))
	}
	return "(" + strings.Join(p, " ") + ")"
}

func dstmt(s parser.Statement) string {
	switch x := s.(type) {
	case nil:
		return "-"
	case parser.VariableDefinition:
		return fmt.Sprintf("(Def %s %s)", dvars(x.Variables()), dexprs(x.Values()))
	case parser.VariableDefinitionCallAssignment:
		return fmt.Sprintf("(DefC %s %s)", dvars(x.Variables()), dexpr(x.Call()))
	case parser.VariableAssignment:
		return fmt.Sprintf("(Asg %s %s)", dvars(x.Variables()), dexprs(x.Values()))
	case parser.VariableAssignmentCallAssignment:
		return fmt.Sprintf("(AsgC %s %s)", dvars(x.Variables()), dexpr(x.Call()))
	case parser.SliceAssignment:
		return fmt.Sprintf("(SA %s %s %s)", dvar(x.Variable), dexpr(x.Index()), dexpr(x.Value()))
	case parser.FunctionDefinition:
		return fmt.Sprintf("(Fn %s %s %s %s %s)", hx(x.Name()), dvts(x.ReturnTypes()), dvars(x.Params()), b01(x.Public()), dstmts(x.Body()))
	case parser.Return:
		return "(Ret " + dexprs(x.Values()) + ")"
	case parser.If:
		p := []string{fmt.Sprintf("(%s %s)", dexpr(x.IfBranch().Condition()), dstmts(x.IfBranch().Body()))}
		for _, b := range x.ElseIfBranches() {
			p = append(p, fmt.Sprintf("(%s %s)", dexpr(b.Condition()), dstmts(b.Body())))
		}
		return fmt.Sprintf("(If (%s) %s)", strings.Join(p, " "), dstmts(x.Else().Body()))
	case parser.For:
		return fmt.Sprintf("(For %s %s %s %s)", dstmt(x.Init()), dexpr(x.Condition()), dstmt(x.Increment()), dstmts(x.Body()))
	case parser.Break:
		return "Brk"
	case parser.Continue:
		return "Cont"
	case parser.Print:
		return "(Pr " + dexprs(x.Expressions()) + ")"
	case parser.Panic:
		return "(Pan " + dexpr(x.Expression()) + ")"
	case parser.Write:
		return fmt.Sprintf("(Wr %s %s %s)", dexpr(x.Path()), dexpr(x.Data()), dexpr(x.Append()))
	}
	if e, ok := s.(parser.Expression); ok {
		return "(X " + dexpr(e) + ")"
	}
	return fmt.Sprintf("(?stmt %T)", s)
}
