package main

import (
	"crypto/md5"
	"fmt"
	"math/rand"
	"os"
	"os/exec"
	"strconv"
	"strings"

	"github.com/monstermichl/typeshell/converters/bash"
	"github.com/monstermichl/typeshell/converters/batch"
	"github.com/monstermichl/typeshell/transpiler"
)

// history cases (C14): hist <id> <ops: comma separated "<prog index>:<b|w>"> <stddir hex> <programs: ';' separated, each "<hex main>|<files>">
// One transpiler object serves the whole sequence (a fresh converter per call, as tsh does after the fix);
// the same sequence is repeated in two fresh processes and from a relocated copy of the sources.

func histDigest(res string) string {
	if strings.HasPrefix(res, "ok:") {
		return fmt.Sprintf("%x", md5.Sum([]byte(unhx(res[3:]))))
	}
	return res
}

type histProg struct {
	main  string
	files []progFile
}

func parseHistProgs(f string) []histProg {
	out := []histProg{}
	for _, p := range strings.Split(f, ";") {
		q := strings.SplitN(p, "|", 2)
		out = append(out, histProg{unhx(q[0]), parseFiles(q[1])})
	}
	return out
}

func runHistoryOnce(ops []string, progs []histProg) []string {
	dir, _ := os.MkdirTemp("", "hist")
	defer os.RemoveAll(dir)
	reals := []string{}
	for i, p := range progs {
		d := fmt.Sprintf("%s/p%d", dir, i)
		reals = append(reals, materialise(d, p.main, p.files))
	}
	t := transpiler.New() // one object for the whole history
	res := []string{}
	for _, op := range ops {
		q := strings.Split(op, ":")
		pi, _ := strconv.Atoi(q[0])
		r := withWatchdog(10e9, func() string {
			var conv transpiler.Converter
			if q[1] == "b" {
				conv = bash.New()
			} else {
				conv = batch.New()
			}
			out, err := t.Transpile(reals[pi], conv)
			if err != nil {
				return "err"
			}
			return "ok:" + hx(out)
		})
		res = append(res, histDigest(r))
	}
	return res
}

func runHistory(f []string) string {
	ops := strings.Split(f[2], ",")
	progs := parseHistProgs(f[4])
	a := runHistoryOnce(ops, progs)
	relocated := runHistoryOnce(ops, progs) // a different scratch directory
	fresh := 1
	exe, _ := os.Executable()
	for i := 0; i < 2; i++ {
		out, err := exec.Command(exe, "hist-child", f[2], f[4]).Output()
		if err != nil || strings.TrimSpace(string(out)) != strings.Join(a, ",") {
			fresh = 0
		}
	}
	rel := 1
	if strings.Join(relocated, ",") != strings.Join(a, ",") {
		rel = 0
	}
	return fmt.Sprintf("calls=%s fresh=%d relocated=%d", strings.Join(a, ","), fresh, rel)
}

func init() {
	runners["hist"] = runHistory
	streams["history"] = func(r *rand.Rand, n int, g *genOut) {
		base := suitePrograms()
		for i := 0; i < n; i++ {
			np := 2 + r.Intn(3)
			progs := []string{}
			for j := 0; j < np; j++ {
				var files map[string]string
				std := false
				if r.Intn(3) == 0 {
					files, _, _, std, _ = genImportCase(r)
				} else {
					src := base[r.Intn(len(base))]
					if r.Intn(6) == 0 {
						src = mutateSource(r, src, 1)
					}
					files = map[string]string{"main.tsh": src}
					std = strings.Contains(src, "import")
				}
				pf := progFields("main.tsh", files, std)
				progs = append(progs, pf[0]+"|"+pf[1])
			}
			ops := []string{}
			for k := 0; k < 5+r.Intn(6); k++ {
				ops = append(ops, fmt.Sprintf("%d:%s", r.Intn(np), []string{"b", "w"}[r.Intn(2)]))
			}
			g.addCase("hist", strings.Join(ops, ","), hx(stdDir()), strings.Join(progs, ";"))
		}
	}
}

// child process entry: prints the digests of one history
func histChild(ops string, progs string) {
	fmt.Println(strings.Join(runHistoryOnce(strings.Split(ops, ","), parseHistProgs(progs)), ","))
}
