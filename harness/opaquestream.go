package main

// Streams "opaque" (C08), "fsops" (C17), "appcalls" (C18) and the runner "orun".
//
// CASE   orun <id> <main> <files> <stddir> <stdin hex|-> <prefiles name.content,...|-> <flags|->
// OBS    transpile=ok out=<hex> status=<n> stderr=<hex> files=<name.content,... sorted> canary=<0|1>
//        (files: every regular file of the scratch directory afterwards except CANARY; the probe
//        programs live in another directory)
// The expectation lines carry the tokens that are prescribed (out=, status=, stderr=, files=, canary=);
// they are computed here from the meaning of the program (what was put in must come out), never from a model.
//
// Case ids carry a tag  #<path>/<origin>/<class>  (opaque),  #<class>  (fsops),  #<origin>/<class> (appcalls)
// that names the one special ingredient of the case, so that a failure is attributed to it.

import (
	"bytes"
	"fmt"
	"math/rand"
	"os"
	"os/exec"
	"path/filepath"
	"regexp"
	"sort"
	"strings"
	"time"
)

const probeScript = `#!/bin/bash
# probe [--exit=N] args... : argument count and every argument in hex
code=0
case "$1" in --exit=*) code="${1#--exit=}"; shift;; esac
printf 'argc=%d' "$#"
for a in "$@"; do
  printf ' [%s]' "$(printf '%s' "$a" | od -An -v -tx1 | tr -d ' \n')"
done
printf '\n'
exit $code
`

const filtScript = `#!/bin/bash
# filt [--exit=N] : every input line wrapped in f( )
code=0
case "$1" in --exit=*) code="${1#--exit=}"; shift;; esac
while IFS= read -r l; do printf 'f(%s)\n' "$l"; done
exit $code
`

func runOrun(f []string) string {
	for len(f) < 8 {
		f = append(f, "-")
	}
	dir, _ := os.MkdirTemp("", "or")
	defer os.RemoveAll(dir)
	real := materialise(dir, unhx(f[2]), parseFiles(f[3]))
	t := transpileTo(real, "bash")
	if !strings.HasPrefix(t, "ok:") {
		return "transpile=" + t
	}
	stdin := ""
	if f[5] != "-" {
		stdin = unhx(f[5])
	}
	pre := map[string]string{}
	if f[6] != "-" {
		for _, e := range strings.Split(f[6], ",") {
			if e == "" {
				continue
			}
			p := strings.SplitN(e, ".", 2)
			c := ""
			if len(p) > 1 {
				c = unhx(p[1])
			}
			pre[unhx(p[0])] = c
		}
	}
	bin := filepath.Join(dir, "bin")
	os.MkdirAll(bin, 0755)
	os.WriteFile(filepath.Join(bin, "probe"), []byte(probeScript), 0755)
	os.WriteFile(filepath.Join(bin, "filt"), []byte(filtScript), 0755)
	r := runScript(unhx(t[3:]), stdin, pre, bin)
	// the two helper programs were written a moment ago; a process forked by another worker in that moment may still
	// hold the descriptor they were written through, and the kernel then refuses to execute them (ETXTBSY).  That
	// says nothing about the script: run the case again.
	for try := 0; try < 5 && strings.Contains(r.stderr, "Text file busy"); try++ {
		time.Sleep(50 * time.Millisecond)
		r = runScript(unhx(t[3:]), stdin, pre, bin)
	}
	if r.timeout {
		return "transpile=ok timeout=1"
	}
	canary := 0
	names := []string{}
	for n := range r.files {
		if n == "CANARY" {
			canary = 1
			continue
		}
		names = append(names, n)
	}
	sort.Strings(names)
	ents := []string{}
	for _, n := range names {
		ents = append(ents, hx(n)+"."+hx(r.files[n]))
	}
	sort.Strings(ents)
	return fmt.Sprintf("transpile=ok out=%s status=%d stderr=%s files=%s canary=%d", hx(r.stdout), r.status, hx(r.stderr), strings.Join(ents, ","), canary)
}

// ---------------------------------------------------------------- contents

type content struct {
	s     string
	class string
}

// class of a string that has ONE special character c at position pos (first/middle/last/only) in "ab"
func classOfChar(c byte, pos string) string {
	switch {
	case c == '"':
		return "quote"
	case c == '$':
		return "dollar"
	case c == '`':
		return "backquote"
	case c == '\\':
		return "backslash"
	case c == '*' || c == '?' || c == '[':
		return "glob"
	case c == ' ':
		if pos == "middle" {
			return "blank-inner"
		}
		return "blank-edge"
	case c == '\n':
		if pos == "last" || pos == "only" {
			return "newline-trailing"
		}
		return "newline-embedded"
	case c == '\t':
		if pos == "middle" {
			return "tab-inner"
		}
		return "tab-edge"
	case c == '-' && (pos == "first" || pos == "only"):
		return "dash-leading"
	case strings.IndexByte(";&|<>()", c) >= 0:
		return "shell-meta"
	case c == '#' && (pos == "first" || pos == "only"):
		return "comment-start"
	case c == '~' && (pos == "first" || pos == "only"):
		return "tilde"
	case c == '!':
		return "bang"
	case c == '%':
		return "percent"
	case c == '\'':
		return "single-quote"
	case (c >= 'a' && c <= 'z') || (c >= 'A' && c <= 'Z') || (c >= '0' && c <= '9') || c == '_':
		return "plain"
	default:
		return "punct"
	}
}

func sweepContents() []content {
	out := []content{}
	chars := []byte{}
	for c := byte(32); c < 127; c++ {
		chars = append(chars, c)
	}
	chars = append(chars, '\n', '\t')
	for _, c := range chars {
		for _, pos := range []string{"first", "middle", "last", "only"} {
			var s string
			switch pos {
			case "first":
				s = string(c) + "ab"
			case "middle":
				s = "a" + string(c) + "b"
			case "last":
				s = "ab" + string(c)
			default:
				s = string(c)
			}
			out = append(out, content{s, classOfChar(c, pos)})
		}
	}
	for _, e := range []content{
		{"$HOME", "dollar"}, {"${HOME}", "dollar"}, {"$(touch CANARY)", "dollar"}, {"a$(touch CANARY)b", "dollar"}, {"$$", "dollar"}, {"$1", "dollar"},
		{"`touch CANARY`", "backquote"}, {"a;touch CANARY", "shell-meta"}, {"a|touch CANARY", "shell-meta"}, {"a&&touch CANARY", "shell-meta"}, {">CANARY", "shell-meta"}, {"a;touch${IFS}CANARY", "dollar"},
		{"-n", "echo-option"}, {"-e", "echo-option"}, {"-E", "echo-option"}, {"-ne", "echo-option"}, {"-n x", "dash-leading"}, {"--", "dash-leading"}, {"--help", "dash-leading"},
		{"a  b", "blank-repeated"}, {"  a", "blank-edge"}, {"a  ", "blank-edge"}, {" ", "blank-edge"}, {"   ", "blank-edge"},
		{"*", "glob"}, {"/*", "glob"}, {"[a-z]*", "glob"}, {"~", "tilde"}, {"~root", "tilde"}, {"{a,b}", "brace"}, {"x{1..3}", "brace"},
		{"%s", "percent"}, {"%d%%", "percent"}, {"\\n", "backslash"}, {"\\t", "backslash"}, {"a\\", "backslash"}, {"\\\\", "backslash"}, {"\\$x", "backslash"},
		{"a\"b\"c", "quote"}, {"\"\"", "quote"}, {"'a'", "single-quote"}, {"a\nb\nc", "newline-embedded"}, {"a\n\nb", "newline-embedded"}, {"a\n", "newline-trailing"},
		{"a\tb\tc", "tab-inner"}, {"#x", "comment-start"}, {"x#y", "punct"}, {"=", "punct"}, {"a=b", "punct"}, {"!!", "bang"}, {"!x", "bang"},
		{"gcc -o demo", "test-expression"}, {"= -z", "test-expression"}, {"a -o b", "test-expression"}, {"! x", "test-expression"}, {"( x )", "test-expression"},
		{"-f in.txt", "test-expression"}, {"x = x", "test-expression"}, {"-z", "test-expression"}, {"a -a b", "test-expression"}, {"1 -eq 1", "test-expression"},
		{"abc", "plain"}, {"Hello World", "blank-inner"}, {"x", "plain"}, {"0", "plain"}, {"1", "plain"}, {"-1", "dash-leading"}, {"007", "plain"},
	} {
		out = append(out, e)
	}
	return out
}

// TypeShell double-quoted literal for s
func tsLit(s string) string {
	var b strings.Builder
	b.WriteByte('"')
	for i := 0; i < len(s); i++ {
		switch s[i] {
		case '"':
			b.WriteString(`\"`)
		case '\\':
			b.WriteString(`\\`)
		case '\n':
			b.WriteString(`\n`)
		case '\t':
			b.WriteString(`\t`)
		default:
			b.WriteByte(s[i])
		}
	}
	b.WriteByte('"')
	return b.String()
}

var opaquePaths = []string{"print", "assign", "concat", "compare", "compare-empty", "pass", "return", "slice-store", "slice-literal", "range", "subscript", "len", "write"}
var opaqueOrigins = []string{"literal", "file", "stdin", "command"}

// opaqueProgram builds the program for one (path, origin, content, inFunc) and what it must print / leave behind.
func opaqueProgram(path, origin string, s string, inFunc bool) (src string, stdin string, pre map[string]string, out string, files map[string]string, ok bool) {
	pre = map[string]string{}
	files = map[string]string{}
	lines := []string{}
	v := "v"
	switch origin {
	case "literal":
		v = tsLit(s)
	case "file":
		pre["in.txt"] = s + "\n"
		files["in.txt"] = s + "\n"
		lines = append(lines, `v := read("in.txt")`)
	case "stdin":
		if strings.Contains(s, "\n") {
			return "", "", nil, "", nil, false
		}
		stdin = s + "\n"
		lines = append(lines, `v := input()`)
	case "command":
		pre["in.txt"] = s + "\n"
		files["in.txt"] = s + "\n"
		lines = append(lines, `v, verr, vcode := @cat("in.txt")`)
	}
	needVar := func() {
		if origin == "literal" {
			lines = append(lines, "v := "+tsLit(s))
			v = "v"
		}
	}
	funcs := ""
	switch path {
	case "print":
		lines = append(lines, fmt.Sprintf("print(%s)", v))
		out = s + "\n"
	case "assign":
		lines = append(lines, fmt.Sprintf("var a string = %s", v), "b := a", "var c string", "c = b", "print(c)")
		out = s + "\n"
	case "concat":
		lines = append(lines, fmt.Sprintf(`print("<" + %s + ">")`, v), fmt.Sprintf(`d := %s + %s`, v, v), "print(d)")
		out = "<" + s + ">\n" + s + s + "\n"
	case "compare":
		lines = append(lines, fmt.Sprintf("w := %s", v), fmt.Sprintf(`print(%s == w, %s != w, %s == w + "x", "x" + %s != "x" + w)`, v, v, v, v))
		out = "1 0 0 0\n"
	case "compare-empty":
		// against the empty literal, as a switch tag and as a loop condition that consumes the value byte by byte
		needVar()
		lines = append(lines, `print(v == "", v != "", "" == v)`, "switch v {", `case "":`, "\tprint(\"blank\")", "default:", "\tprint(\"text\")", "}",
			"k := 0", "t := v", `for t != "" {`, "\tk++", "\tt = t[1:]", "}", "print(k)")
		if s == "" {
			out = "1 0 1\nblank\n0\n"
		} else {
			out = fmt.Sprintf("0 1 0\ntext\n%d\n", len(s))
		}
	case "pass":
		funcs = "func show(p string, k int) {\n\tprint(p)\n\tprint(k)\n}\n"
		lines = append(lines, fmt.Sprintf("show(%s, 7)", v))
		out = s + "\n7\n"
	case "return":
		funcs = "func ident(p string) string {\n\treturn p\n}\nfunc two(p string) (string, string) {\n\treturn p, p\n}\n"
		lines = append(lines, fmt.Sprintf("print(ident(%s))", v), fmt.Sprintf("r1, r2 := two(%s)", v), "print(r2)")
		out = s + "\n" + s + "\n"
	case "slice-store":
		lines = append(lines, `sl := []string{"x"}`, fmt.Sprintf("sl[0] = %s", v), fmt.Sprintf("sl[2] = %s", v), "print(sl[0])", "print(sl[2])", "print(len(sl))")
		out = s + "\n" + s + "\n3\n"
	case "slice-literal":
		lines = append(lines, fmt.Sprintf(`sl := []string{%s, "y", %s}`, v, v), "print(sl[0])", "print(sl[2])", "var cp []string", "copy(cp, sl)", "print(cp[2])")
		out = s + "\n" + s + "\n" + s + "\n"
	case "range":
		lines = append(lines, fmt.Sprintf(`sl := []string{%s, "y"}`, v), "for i, e := range sl {", "\tprint(i, e)", "}")
		out = "0 " + s + "\n1 y\n"
	case "subscript":
		needVar()
		lines = append(lines, "print(v[0:len(v)])", "print(v[0])")
		out = s + "\n" + s[:1] + "\n"
	case "len":
		needVar()
		lines = append(lines, "print(len(v))", fmt.Sprintf(`print(len(%s + "xy"))`, v))
		out = fmt.Sprintf("%d\n%d\n", len(s), len(s)+2)
	case "write":
		lines = append(lines, fmt.Sprintf(`write("out.txt", %s)`, v), fmt.Sprintf(`write("out.txt", %s, true)`, v), `print(read("out.txt"))`, `print(exists("out.txt"))`)
		files["out.txt"] = s + "\n" + s + "\n"
		out = s + "\n" + s + "\n1\n"
	}
	if inFunc {
		src = funcs + "func body0() {\n\t" + strings.Join(lines, "\n\t") + "\n}\nbody0()\n"
	} else {
		src = funcs + strings.Join(lines, "\n") + "\n"
	}
	return src, stdin, pre, out, files, true
}

func encFiles(m map[string]string) string {
	if len(m) == 0 {
		return "-"
	}
	ents := []string{}
	for n, c := range m {
		ents = append(ents, hx(n)+"."+hx(c))
	}
	sort.Strings(ents)
	return strings.Join(ents, ",")
}

func expectTokens(out string, status int, files map[string]string) string {
	e := encFiles(files)
	if e == "-" {
		e = ""
	}
	return fmt.Sprintf("out=%s status=%d stderr= files=%s canary=0", hx(out), status, e)
}

var reArgc = regexp.MustCompile(`argc=([0-9]+)((?: \[[0-9a-f]*\])*)`)

// runArgv: the argument vector the probe program received (first probe line of the output)
func runArgv(f []string) string {
	o := runOrun(f)
	for _, t := range strings.Split(o, " ") {
		if strings.HasPrefix(t, "out=") {
			m := reArgc.FindStringSubmatch(unhx(t[4:]))
			if m == nil {
				return "argv=error"
			}
			hs := []string{}
			for _, a := range strings.Fields(m[2]) {
				hs = append(hs, strings.Trim(a, "[]"))
			}
			return fmt.Sprintf("argv=%s:%s", m[1], strings.Join(hs, ","))
		}
	}
	return "argv=error"
}

// runDq: what /bin/bash makes of a double-quoted word under a given environment
func runDq(f []string) string {
	for len(f) < 4 {
		f = append(f, "")
	}
	word := ""
	if f[3] != "-" {
		word = unhx(f[3])
	}
	script := "printf '%s' \"" + word + "\"\n"
	dir, _ := os.MkdirTemp("", "dq")
	defer os.RemoveAll(dir)
	sp := filepath.Join(dir, "s.sh")
	os.WriteFile(sp, []byte(script), 0644)
	cmd := exec.Command("/bin/bash", sp)
	cmd.Dir = dir
	cmd.Env = []string{"PATH=/usr/bin:/bin", "LC_ALL=C"}
	for _, e := range strings.Split(f[2], ",") {
		if e == "" {
			continue
		}
		p := strings.SplitN(e, ".", 2)
		v := ""
		if len(p) > 1 {
			v = unhx(p[1])
		}
		cmd.Env = append(cmd.Env, unhx(p[0])+"="+v)
	}
	var so, se bytes.Buffer
	cmd.Stdout = &so
	cmd.Stderr = &se
	if err := cmd.Run(); err != nil || se.Len() > 0 {
		return "error"
	}
	return "some:" + hx(so.String())
}

func init() {
	runners["orun"] = runOrun
	runners["fsh"] = runOrun
	runners["argv"] = runArgv
	runners["dq"] = runDq

	// dqwords: words built from neutral text, references, escapes and the characters Bash interprets
	streams["dqwords"] = func(r *rand.Rand, n int, g *genOut) {
		names := []string{"a", "b_1", "f1_v", "_h0", "X9"}
		vals := []string{"", "v", "two words", "q\"d$HOME`x`\\n*  -e $(touch X)", "${a}", "\\", "a\nb", "  pad  ", "*", "-n"}
		pieces := []string{"a", "b", " ", "  ", "x y", "<", ">", "*", "-n", "'", "%s", "!", "#", ";", "(", "\\$", "\\\"", "\\\\", "\\`", "\\n", "\\a", "\\ ", "$ ", "$", "\n", "\t", "=", "[", "~", "{", "}", "${", "$x", "`", "\"", "$(", "$1", "$$", "${1}"}
		kinds := map[string]int{}
		for i := 0; i < n; i++ {
			env := []string{}
			for _, nm := range names {
				env = append(env, hx(nm)+"."+hx(vals[r.Intn(len(vals))]))
			}
			var w strings.Builder
			k := 1 + r.Intn(6)
			for j := 0; j < k; j++ {
				switch r.Intn(3) {
				case 0:
					w.WriteString("${" + names[r.Intn(len(names))] + "}")
				default:
					w.WriteString(pieces[r.Intn(len(pieces))])
				}
			}
			word := w.String()
			wf := "-"
			if word != "" {
				wf = hx(word)
			}
			g.addCase("dq", strings.Join(env, ","), wf)
			kinds[fmt.Sprint(k)]++
		}
		g.meta["dqwords_pieces"] = kinds
	}

	// n <= 0: the whole sweep; otherwise about n cases: every (path, origin, class) gets the same share.
	streams["opaque"] = func(r *rand.Rand, n int, g *genOut) {
		cs := sweepContents()
		byClass := map[string][]content{}
		classes := []string{}
		for _, c := range cs {
			if _, ok := byClass[c.class]; !ok {
				classes = append(classes, c.class)
			}
			byClass[c.class] = append(byClass[c.class], c)
		}
		sort.Strings(classes)
		combos := len(opaquePaths) * len(opaqueOrigins) * len(classes)
		per := 0
		if n > 0 {
			per = n / combos
			if per < 1 {
				per = 1
			}
		}
		dist := map[string]int{}
		for _, path := range opaquePaths {
			for _, origin := range opaqueOrigins {
				for _, class := range classes {
					pool := byClass[class]
					idx := r.Perm(len(pool))
					if per > 0 && per < len(idx) {
						idx = idx[:per]
					}
					for _, i := range idx {
						c := pool[i]
						inFunc := r.Intn(2) == 0
						src, stdin, pre, out, files, ok := opaqueProgram(path, origin, c.s, inFunc)
						if !ok {
							continue
						}
						f := progFields("main.tsh", map[string]string{"main.tsh": src}, false)
						sin := "-"
						if stdin != "" {
							sin = hx(stdin)
						}
						g.addCase("emit", f...)
						id := fmt.Sprintf("%d#%s/%s/%s", g.n, path, origin, class)
						g.n++
						fmt.Fprintf(g.cases, "orun %s %s %s %s -\n", id, strings.Join(f, " "), sin, encFiles(pre))
						g.addExpect("orun", id, expectTokens(out, 0, files))
						dist[origin+"/"+class]++
					}
				}
			}
		}
		g.meta["opaque_origin_class"] = dist
		g.meta["opaque_paths"] = len(opaquePaths)
		g.meta["opaque_contents"] = len(cs)
	}

	// fsops (C17): histories of write / append / read / exists over a few paths; contents and paths arrive
	// through standard input (so that their characters are run-time data) or are neutral literals.
	streams["fsops"] = func(r *rand.Rand, n int, g *genOut) {
		cs := sweepContents()
		pathPool := []content{{"f1.txt", "plain"}, {"f2.txt", "plain"}, {"f 3.txt", "path-blank"}, {"d/f4.txt", "path-subdir"}, {"-f5", "path-dash"},
			{"f*6", "path-glob"}, {"f\"7", "path-quote"}, {"f$8", "path-dollar"}, {"f;9", "path-punct"}, {"  f10", "path-blank-edge"}, {"f'11", "path-single-quote"}}
		dist := map[string]int{}
		for i := 0; i < n; i++ {
			// one special ingredient per case: either a special path or a special content (or none)
			special := r.Intn(3)
			paths := []string{"f1.txt", "f2.txt"}
			class := "plain"
			viaStdin := r.Intn(2) == 0
			if special == 1 {
				p := pathPool[2+r.Intn(len(pathPool)-2)]
				paths = append(paths, p.s)
				class = p.class
				viaStdin = true
				// paths without characters that mean something between double quotes also as literals in the source
				if (p.class == "path-blank" || p.class == "path-subdir" || p.class == "path-dash" || p.class == "path-blank-edge") && r.Intn(2) == 0 {
					viaStdin = false
					class += "-literal"
				}
			}
			contents := []string{"alpha", "beta gamma", "x"}
			if special == 2 {
				c := cs[r.Intn(len(cs))]
				for strings.Contains(c.s, "\n") && r.Intn(4) != 0 {
					c = cs[r.Intn(len(cs))]
				}
				contents = append(contents, c.s)
				class = "content-" + c.class
				viaStdin = !strings.Contains(c.s, "\n")
				if !viaStdin {
					class += "-literal"
				}
			}
			inFunc := r.Intn(2) == 0
			lines := []string{}
			stdin := ""
			pexpr := make([]string, len(paths))
			cexpr := make([]string, len(contents))
			for j, p := range paths {
				if viaStdin {
					lines = append(lines, fmt.Sprintf("p%d := input()", j))
					stdin += p + "\n"
					pexpr[j] = fmt.Sprintf("p%d", j)
				} else {
					pexpr[j] = tsLit(p)
				}
			}
			for j, c := range contents {
				if viaStdin {
					lines = append(lines, fmt.Sprintf("c%d := input()", j))
					stdin += c + "\n"
					cexpr[j] = fmt.Sprintf("c%d", j)
				} else {
					cexpr[j] = tsLit(c)
				}
			}
			pre := map[string]string{}
			store := map[string][]string{} // path -> lines
			if r.Intn(3) == 0 {
				pre["f2.txt"] = "old line\n"
				store["f2.txt"] = []string{"old line"}
			}
			out := ""
			usesW := false
			flagVars := false
			ops := []string{}
			nops := 3 + r.Intn(8)
			for k := 0; k < nops; k++ {
				pi := r.Intn(len(paths))
				if special == 1 && r.Intn(2) == 0 {
					pi = len(paths) - 1
				}
				ci := r.Intn(len(contents))
				if special == 2 && r.Intn(2) == 0 {
					ci = len(contents) - 1
				}
				p := paths[pi]
				if shape := r.Intn(10); shape < 3 {
					switch shape {
					case 0: // a write in a branch that is taken or not
						taken := r.Intn(2) == 0
						cond := "1 == 2"
						if taken {
							cond = "2 == 2"
						}
						app := r.Intn(2) == 0
						a := ""
						if app {
							a = ", true"
						}
						lines = append(lines, fmt.Sprintf("if %s {", cond), fmt.Sprintf("\twrite(%s, %s%s)", pexpr[pi], cexpr[ci], a), "}")
						if taken {
							if app {
								store[p] = append(store[p], contents[ci])
								ops = append(ops, "w."+hx(p)+"."+hx(contents[ci])+".1")
							} else {
								store[p] = []string{contents[ci]}
								ops = append(ops, "w."+hx(p)+"."+hx(contents[ci])+".0")
							}
						}
					case 1: // a write performed by a function that was defined before any top-level write
						lines = append(lines, fmt.Sprintf(`print(wfile(%s, %s))`, pexpr[pi], cexpr[ci]))
						store[p] = []string{contents[ci]}
						ops = append(ops, "w."+hx(p)+"."+hx(contents[ci])+".0.k")
						out += "k\n"
						usesW = true
					default: // a read whose later sibling writes the same path
						if _, ok := store[p]; ok {
							lines = append(lines, fmt.Sprintf(`print(read(%s), wfile(%s, %s))`, pexpr[pi], pexpr[pi], cexpr[ci]))
							out += strings.Join(store[p], "\n") + " k\n"
							ops = append(ops, "r."+hx(p)+".k", "w."+hx(p)+"."+hx(contents[ci])+".0")
							store[p] = []string{contents[ci]}
							usesW = true
						}
					}
					continue
				}
				switch op := r.Intn(8); {
				case op < 2:
					lines = append(lines, fmt.Sprintf("write(%s, %s)", pexpr[pi], cexpr[ci]))
					store[p] = []string{contents[ci]}
					ops = append(ops, "w."+hx(p)+"."+hx(contents[ci])+".0")
				case op < 4:
					// the append flag as a literal, a variable, a comparison or a negation
					flag := []string{"true", "true", "bt", "fn > 0", "!bf"}[r.Intn(5)]
					if flag != "true" {
						flagVars = true
					}
					lines = append(lines, fmt.Sprintf("write(%s, %s, %s)", pexpr[pi], cexpr[ci], flag))
					store[p] = append(store[p], contents[ci])
					ops = append(ops, "w."+hx(p)+"."+hx(contents[ci])+".1")
				case op == 4:
					flag := []string{"false", "bf", "fn < 0", "!bt"}[r.Intn(4)]
					if flag != "false" {
						flagVars = true
					}
					lines = append(lines, fmt.Sprintf("write(%s, %s, %s)", pexpr[pi], cexpr[ci], flag))
					store[p] = []string{contents[ci]}
					ops = append(ops, "w."+hx(p)+"."+hx(contents[ci])+".0")
				case op < 7:
					if _, ok := store[p]; ok {
						lines = append(lines, fmt.Sprintf(`print("<" + read(%s) + ">")`, pexpr[pi]))
						out += "<" + strings.Join(store[p], "\n") + ">\n"
						ops = append(ops, "r."+hx(p))
					} else {
						lines = append(lines, fmt.Sprintf("print(exists(%s))", pexpr[pi]))
						out += "0\n"
						ops = append(ops, "e."+hx(p))
					}
				default:
					lines = append(lines, fmt.Sprintf("print(exists(%s))", pexpr[pi]))
					ops = append(ops, "e."+hx(p))
					if _, ok := store[p]; ok {
						out += "1\n"
					} else {
						out += "0\n"
					}
				}
			}
			for j, p := range paths { // final observation of every path
				lines = append(lines, fmt.Sprintf("print(exists(%s))", pexpr[j]))
				ops = append(ops, "e."+hx(p))
				if _, ok := store[p]; ok {
					out += "1\n"
				} else {
					out += "0\n"
				}
			}
			if strings.HasPrefix(paths[len(paths)-1], "d/") {
				pre["d/.keep"] = ""
			}
			files := map[string]string{}
			for n, c := range pre {
				files[n] = c
			}
			for p, ls := range store {
				files[p] = strings.Join(ls, "\n") + "\n"
			}
			if flagVars {
				lines = append([]string{"bt := true", "bf := false", "fn := 1"}, lines...)
				dist["(with a computed append flag)"]++
			}
			var src string
			if inFunc {
				src = "func body0() {\n\t" + strings.Join(lines, "\n\t") + "\n}\nbody0()\n"
			} else {
				src = strings.Join(lines, "\n") + "\n"
			}
			if usesW {
				src = "func wfile(p string, c string) string {\n\twrite(p, c)\n\treturn \"k\"\n}\n" + src
			}
			f := progFields("main.tsh", map[string]string{"main.tsh": src}, false)
			sin := "-"
			if stdin != "" {
				sin = hx(stdin)
			}
			g.addCase("emit", f...)
			id := fmt.Sprintf("%d#%s", g.n, class)
			g.n++
			fmt.Fprintf(g.cases, "orun %s %s %s %s -\n", id, strings.Join(f, " "), sin, encFiles(pre))
			g.addExpect("orun", id, expectTokens(out, 0, files))
			// the same history for the Bash-level model of the three operations (coq/Sem/FsSem.v)
			fmt.Fprintf(g.cases, "fsh %s %s %s %s %s\n", id, strings.Join(f, " "), sin, encFiles(pre), strings.Join(ops, ","))
			dist[class]++
		}
		g.meta["fsops_classes"] = dist
	}

	// appcalls (C18): probe invocations with 0..5 arguments, pipelines of length 1..3, exit statuses,
	// captured or not.  At most one argument is special; it is a literal or a computed value (read from stdin).
	streams["appcalls"] = func(r *rand.Rand, n int, g *genOut) {
		cs := sweepContents()
		cs = append(cs, content{"", "empty"}, content{"", "empty"}, content{"", "empty"})
		plain := []string{"a", "bc", "x1", "Hello", "7"}
		dist := map[string]int{}
		for i := 0; i < n; i++ {
			nargs := r.Intn(6)
			args := make([]string, nargs)
			exprs := make([]string, nargs)
			for j := range args {
				args[j] = plain[r.Intn(len(plain))]
				exprs[j] = tsLit(args[j])
			}
			tag := "none/plain"
			lines := []string{}
			stdin := ""
			if nargs > 0 && r.Intn(5) != 0 {
				j := r.Intn(nargs)
				c := cs[r.Intn(len(cs))]
				origin := "literal"
				if r.Intn(2) == 0 && !strings.Contains(c.s, "\n") {
					origin = "computed"
					lines = append(lines, "sv := input()")
					stdin = c.s + "\n"
					val := c.s
					switch r.Intn(4) {
					case 0:
						exprs[j] = "sv"
					case 1:
						exprs[j] = `sv + ""`
					case 2: // a blank-free literal in front of the value: one argument, whatever the value holds
						exprs[j] = `"--opt=" + sv`
						val = "--opt=" + c.s
					default:
						exprs[j] = `sv + "=x" + itoa(7)`
						val = c.s + "=x7"
					}
					c.s = val
				} else {
					exprs[j] = tsLit(c.s)
				}
				args[j] = c.s
				tag = origin + "/" + c.class
			}
			usesMk := false
			for j := range exprs {
				if r.Intn(5) == 0 { // the argument is directly a function call
					exprs[j] = "mk(" + exprs[j] + ")"
					usesMk = true
				}
			}
			status := 0
			if r.Intn(2) == 0 {
				status = []int{1, 2, 7, 42, 127, 200, 255}[r.Intn(7)]
			}
			plen := 1 + r.Intn(3)
			capture := r.Intn(3) != 0
			inFunc := r.Intn(2) == 0
			// what probe prints
			pout := fmt.Sprintf("argc=%d", nargs)
			for _, a := range args {
				pout += " [" + hx(a) + "]"
			}
			call := "@probe(" + strings.Join(exprs, ", ") + ")"
			lastStatus := 0
			if plen == 1 && status != 0 {
				ex := append([]string{tsLit(fmt.Sprintf("--exit=%d", status))}, exprs...)
				call = "@probe(" + strings.Join(ex, ", ") + ")"
				lastStatus = status
			}
			// an earlier command of a chain may fail as well: the status of the chain is the last command's alone
			early := ""
			if plen > 1 && r.Intn(2) == 0 {
				es := []int{1, 3, 9, 77, 255}[r.Intn(5)]
				ex := append([]string{tsLit(fmt.Sprintf("--exit=%d", es))}, exprs...)
				call = "@probe(" + strings.Join(ex, ", ") + ")"
				early = "/early-failure"
			}
			for k := 1; k < plen; k++ {
				if k == plen-1 && status != 0 {
					call += fmt.Sprintf(` | @filt("--exit=%d")`, status)
					lastStatus = status
				} else if k < plen-1 && r.Intn(2) == 0 {
					call += fmt.Sprintf(` | @filt("--exit=%d")`, []int{1, 4, 66}[r.Intn(3)])
					early = "/early-failure"
				} else {
					call += " | @filt()"
				}
				pout = "f(" + pout + ")"
			}
			tag += early
			out := ""
			if capture {
				lines = append(lines, "so, se, sc := "+call, `print("<" + so + ">", sc)`)
				out = fmt.Sprintf("<%s> %d\n", pout, lastStatus)
				tag += "/capture"
			} else {
				lines = append(lines, call, `print("done")`)
				out = pout + "\ndone\n"
				tag += "/direct"
			}
			var src string
			if inFunc {
				src = "func body0() {\n\t" + strings.Join(lines, "\n\t") + "\n}\nbody0()\n"
			} else {
				src = strings.Join(lines, "\n") + "\n"
			}
			if usesMk {
				src = "func mk(s string) string {\n\treturn s\n}\n" + src
			}
			f := progFields("main.tsh", map[string]string{"main.tsh": src}, false)
			sin := "-"
			if stdin != "" {
				sin = hx(stdin)
			}
			g.addCase("emit", f...)
			id := fmt.Sprintf("%d#%s", g.n, tag)
			g.n++
			pre := map[string]string{"ab.txt": "", "zz": ""} // so that glob characters in an unquoted argument would match something
			fmt.Fprintf(g.cases, "orun %s %s %s %s -\n", id, strings.Join(f, " "), sin, encFiles(pre))
			g.addExpect("orun", id, expectTokens(out, 0, pre))
			fmt.Fprintf(g.cases, "argv %s %s %s %s -\n", id, strings.Join(f, " "), sin, encFiles(pre))
			ah := []string{}
			for _, a := range args {
				ah = append(ah, hx(a))
			}
			g.addExpect("argv", id, fmt.Sprintf("argv=%d:%s", len(ah), strings.Join(ah, ",")))
			dist[tag]++
		}
		g.meta["appcalls_tags"] = dist
	}
}
