package main

import (
	"fmt"
	"math/rand"
	"strings"

	"github.com/monstermichl/typeshell/lexer"
)

// The token grammar as the property states it (independent of the lexer's tables).
type punctSpec struct {
	text string
	typ  lexer.TokenType
}

var punctSpecs = []punctSpec{
	{"(", lexer.OPENING_ROUND_BRACKET}, {")", lexer.CLOSING_ROUND_BRACKET},
	{"[", lexer.OPENING_SQUARE_BRACKET}, {"]", lexer.CLOSING_SQUARE_BRACKET},
	{"{", lexer.OPENING_CURLY_BRACKET}, {"}", lexer.CLOSING_CURLY_BRACKET},
	{"==", lexer.COMPARE_OPERATOR}, {"!=", lexer.COMPARE_OPERATOR}, {"<=", lexer.COMPARE_OPERATOR},
	{">=", lexer.COMPARE_OPERATOR}, {"<", lexer.COMPARE_OPERATOR}, {">", lexer.COMPARE_OPERATOR},
	{"&&", lexer.LOGICAL_OPERATOR}, {"||", lexer.LOGICAL_OPERATOR},
	{"+=", lexer.COMPOUND_ASSIGN_OPERATOR}, {"-=", lexer.COMPOUND_ASSIGN_OPERATOR}, {"*=", lexer.COMPOUND_ASSIGN_OPERATOR},
	{"/=", lexer.COMPOUND_ASSIGN_OPERATOR}, {"%=", lexer.COMPOUND_ASSIGN_OPERATOR},
	{"=", lexer.ASSIGN_OPERATOR}, {":=", lexer.SHORT_INIT_OPERATOR},
	{"++", lexer.INCREMENT_OPERATOR}, {"--", lexer.DECREMENT_OPERATOR},
	{"!", lexer.UNARY_OPERATOR},
	{"+", lexer.BINARY_OPERATOR}, {"-", lexer.BINARY_OPERATOR}, {"*", lexer.BINARY_OPERATOR},
	{"/", lexer.BINARY_OPERATOR}, {"%", lexer.BINARY_OPERATOR},
	{",", lexer.COMMA}, {":", lexer.COLON}, {";", lexer.SEMICOLON}, {".", lexer.DOT},
	{"@", lexer.AT}, {"|", lexer.PIPE},
}

var keywordSpecs = map[string]lexer.TokenType{
	"import": lexer.IMPORT, "var": lexer.VAR_DEFINITION, "func": lexer.FUNCTION_DEFINITION, "return": lexer.RETURN,
	"if": lexer.IF, "else": lexer.ELSE, "switch": lexer.SWITCH, "case": lexer.CASE, "default": lexer.DEFAULT,
	"for": lexer.FOR, "range": lexer.RANGE, "break": lexer.BREAK, "continue": lexer.CONTINUE, "nil": lexer.NIL_LITERAL,
	"len": lexer.LEN, "print": lexer.PRINT, "input": lexer.INPUT, "copy": lexer.COPY, "itoa": lexer.ITOA,
	"exists": lexer.EXISTS, "read": lexer.READ, "write": lexer.WRITE, "panic": lexer.PANIC,
	"bool": lexer.DATA_TYPE, "int": lexer.DATA_TYPE, "string": lexer.DATA_TYPE, "error": lexer.DATA_TYPE,
}

var trickyIdents = []string{"trueish", "falsey", "nilx", "format", "iff", "forx", "printer", "_", "_x1", "True", "FALSE",
	"truefalse", "true_", "false1", "x", "i", "abc", "Z9", "lenx", "returns", "integer", "int8", "stringy", "breakfast", "a_b_c"}

type lexItem struct {
	text  string
	sig   bool // produces a token
	typ   lexer.TokenType
	value string
	kind  string // ident keyword bool num str raw punct nl space lcomment bcomment
}

var escapes = map[byte]byte{'a': 7, 'b': 8, 'f': 12, 'n': 10, 'r': 13, 't': 9, 'v': 11, '\\': 92, '"': 34}
var escapeKeys = []byte{'a', 'b', 'f', 'n', 'r', 't', 'v', '\\', '"'}
var utf8Samples = []string{"é", "ß", "→", "日本", "😀", " "}

func genIdent(r *rand.Rand) string {
	if r.Intn(3) == 0 {
		return trickyIdents[r.Intn(len(trickyIdents))]
	}
	const first = "abcdefghijklmnopqrstuvwxyzABCDEFGHIJKLMNOPQRSTUVWXYZ_"
	const rest = first + "0123456789"
	n := 1 + r.Intn(6)
	b := []byte{first[r.Intn(len(first))]}
	for i := 1; i < n; i++ {
		b = append(b, rest[r.Intn(len(rest))])
	}
	s := string(b)
	if _, kw := keywordSpecs[s]; kw || s == "true" || s == "false" {
		return s + "_"
	}
	return s
}

func genStringItem(r *rand.Rand) lexItem {
	var text, val strings.Builder
	if r.Intn(4) == 0 { // raw string
		text.WriteByte('`')
		n := r.Intn(8)
		for i := 0; i < n; i++ {
			switch r.Intn(8) {
			case 0:
				s := utf8Samples[r.Intn(len(utf8Samples))]
				text.WriteString(s)
				val.WriteString(s)
			case 1:
				text.WriteByte('\n')
				val.WriteByte('\n')
			case 2:
				c := []byte{'\\', '"', '$', '\t', '/', '*'}[r.Intn(6)]
				text.WriteByte(c)
				val.WriteByte(c)
			default:
				c := byte(32 + r.Intn(95))
				if c == '`' {
					c = 'q'
				}
				text.WriteByte(c)
				val.WriteByte(c)
			}
		}
		text.WriteByte('`')
		return lexItem{text: text.String(), sig: true, typ: lexer.STRING_LITERAL, value: val.String(), kind: "raw"}
	}
	text.WriteByte('"')
	n := r.Intn(10)
	for i := 0; i < n; i++ {
		switch r.Intn(8) {
		case 0:
			k := escapeKeys[r.Intn(len(escapeKeys))]
			text.WriteByte('\\')
			text.WriteByte(k)
			val.WriteByte(escapes[k])
		case 1:
			s := utf8Samples[r.Intn(len(utf8Samples))]
			text.WriteString(s)
			val.WriteString(s)
		case 2:
			text.WriteByte('\n') // TypeShell allows multi-line interpreted literals
			val.WriteByte('\n')
		case 3:
			c := []byte{'`', '$', '\t', '/', '*', '\''}[r.Intn(6)]
			text.WriteByte(c)
			val.WriteByte(c)
		default:
			c := byte(32 + r.Intn(95))
			if c == '"' || c == '\\' {
				c = 'q'
			}
			text.WriteByte(c)
			val.WriteByte(c)
		}
	}
	text.WriteByte('"')
	return lexItem{text: text.String(), sig: true, typ: lexer.STRING_LITERAL, value: val.String(), kind: "str"}
}

func genComment(r *rand.Rand, block bool) lexItem {
	const alpha = "abc xyz 0 \t\"`'$-+=(){}[]<>!&|,;:.@%"
	n := r.Intn(10)
	var b strings.Builder
	for i := 0; i < n; i++ {
		switch {
		case block && r.Intn(6) == 0:
			b.WriteByte('\n')
		case r.Intn(6) == 0:
			b.WriteByte("/*"[r.Intn(2)])
		default:
			b.WriteByte(alpha[r.Intn(len(alpha))])
		}
	}
	body := b.String()
	if block {
		body = strings.ReplaceAll(body, "*/", "* /")
		if strings.HasSuffix(body, "*") && r.Intn(2) == 0 {
			// "/* x **/" is fine: the first terminator is the final one
		}
		return lexItem{text: "/*" + body + "*/", kind: "bcomment"}
	}
	return lexItem{text: "//" + body, kind: "lcomment"}
}

func genSigItem(r *rand.Rand) lexItem {
	switch k := r.Intn(20); {
	case k < 5:
		id := genIdent(r)
		return lexItem{text: id, sig: true, typ: lexer.IDENTIFIER, value: id, kind: "ident"}
	case k < 8:
		keys := make([]string, 0, len(keywordSpecs))
		for _, kw := range []string{"import", "var", "func", "return", "if", "else", "switch", "case", "default", "for", "range", "break", "continue", "nil",
			"len", "print", "input", "copy", "itoa", "exists", "read", "write", "panic", "bool", "int", "string", "error"} {
			keys = append(keys, kw)
		}
		kw := keys[r.Intn(len(keys))]
		return lexItem{text: kw, sig: true, typ: keywordSpecs[kw], value: kw, kind: "keyword"}
	case k < 9:
		b := []string{"true", "false"}[r.Intn(2)]
		return lexItem{text: b, sig: true, typ: lexer.BOOL_LITERAL, value: b, kind: "bool"}
	case k < 11:
		s := fmt.Sprintf("%d", r.Intn(100000))
		if r.Intn(4) == 0 {
			s = "-" + s
		}
		if r.Intn(8) == 0 {
			s += fmt.Sprintf(".%d", r.Intn(100))
		}
		if r.Intn(10) == 0 {
			s = "007"
		}
		return lexItem{text: s, sig: true, typ: lexer.NUMBER_LITERAL, value: s, kind: "num"}
	case k < 13:
		return genStringItem(r)
	case k < 14:
		return lexItem{text: "\n", sig: true, typ: lexer.NEWLINE, value: "\n", kind: "nl"}
	default:
		p := punctSpecs[r.Intn(len(punctSpecs))]
		return lexItem{text: p.text, sig: true, typ: p.typ, value: p.text, kind: "punct"}
	}
}

func isWordByte(c byte) bool {
	return c == '_' || (c >= '0' && c <= '9') || (c >= 'a' && c <= 'z') || (c >= 'A' && c <= 'Z')
}

const safeBrackets = "()[]{},;"

// safeAdjacent decides conservatively whether item b may follow item a with nothing in between.
func safeAdjacent(a lexItem, b lexItem) bool {
	if a.kind == "lcomment" {
		return b.kind == "nl"
	}
	if a.kind == "space" || a.kind == "nl" || a.kind == "bcomment" || a.kind == "str" || a.kind == "raw" {
		return true
	}
	if b.text == "" {
		return true
	}
	b0 := b.text[0]
	switch a.kind {
	case "ident", "keyword", "bool":
		return !isWordByte(b0)
	case "num":
		return !isWordByte(b0) && b0 != '.'
	case "punct":
		if strings.Contains(safeBrackets, a.text) {
			return true
		}
		// operators: only directly before words, strings, opening brackets, blanks
		if b.kind == "ident" || b.kind == "keyword" || b.kind == "bool" || b.kind == "str" || b.kind == "raw" {
			return true
		}
		if b.kind == "num" {
			return a.text != "-" && a.text != "." && b0 != '-'
		}
		if b.kind == "punct" && (b.text == "(" || b.text == "[" || b.text == "{" || b.text == ")" || b.text == "]" || b.text == "}" || b.text == "," || b.text == ";") {
			return true
		}
		return false
	}
	return false
}

func genFiller(r *rand.Rand) lexItem {
	switch r.Intn(6) {
	case 0:
		return lexItem{text: "\t", kind: "space"}
	case 1:
		return genComment(r, true)
	default:
		return lexItem{text: " ", kind: "space"}
	}
}

type expTok struct {
	typ      lexer.TokenType
	value    string
	row, col int
}

func expectObs(toks []expTok) string {
	parts := make([]string, len(toks))
	for i, t := range toks {
		parts[i] = fmt.Sprintf("%d:%s:%d:%d", int(t.typ), hx(t.value), t.row, t.col)
	}
	return "ok " + strings.Join(parts, " ")
}

// renderItems concatenates the items and computes the token list the grammar prescribes.
func renderItems(items []lexItem, crlf bool) (string, []expTok) {
	var src strings.Builder
	toks := []expTok{}
	row, col := 1, 1
	for _, it := range items {
		if it.sig {
			toks = append(toks, expTok{it.typ, it.value, row, col})
		}
		for i := 0; i < len(it.text); i++ {
			c := it.text[i]
			if c == '\n' {
				if crlf {
					src.WriteByte('\r')
				}
				row++
				col = 1
			} else {
				col++
			}
			src.WriteByte(c)
		}
	}
	toks = append(toks, expTok{lexer.EOF, "", row, col})
	return src.String(), toks
}

func genLexItems(r *rand.Rand, n int) []lexItem {
	items := []lexItem{}
	for i := 0; i < n; i++ {
		it := genSigItem(r)
		if r.Intn(12) == 0 {
			lc := genComment(r, false)
			items = appendItem(r, items, lc)
			items = append(items, lexItem{text: "\n", sig: true, typ: lexer.NEWLINE, value: "\n", kind: "nl"})
		}
		items = appendItem(r, items, it)
	}
	return items
}

func appendItem(r *rand.Rand, items []lexItem, it lexItem) []lexItem {
	if len(items) > 0 {
		prev := items[len(items)-1]
		if !safeAdjacent(prev, it) || r.Intn(3) == 0 {
			if prev.kind == "lcomment" {
				items = append(items, lexItem{text: "\n", sig: true, typ: lexer.NEWLINE, value: "\n", kind: "nl"})
			} else {
				f := genFiller(r)
				if f.kind == "bcomment" && strings.HasSuffix(prev.text, "/") {
					f = lexItem{text: " ", kind: "space"}
				}
				items = append(items, f)
				for r.Intn(4) == 0 {
					items = append(items, genFiller(r))
				}
			}
		}
	}
	return append(items, it)
}

func init() {
	streams["lex"] = func(r *rand.Rand, n int, g *genOut) {
		kinds := map[string]int{}
		valid, garbage, errs := 0, 0, 0
		for i := 0; i < n; i++ {
			switch {
			case i%10 < 7: // token sequences with arbitrary legal separators
				items := genLexItems(r, 1+r.Intn(14))
				crlf := r.Intn(4) == 0
				src, toks := renderItems(items, crlf)
				for _, it := range items {
					kinds[it.kind]++
				}
				id := g.addCase("lex", hx(src))
				g.addExpect("lex", id, expectObs(toks))
				valid++
			case i%10 < 8: // lexical errors the property names
				items := genLexItems(r, r.Intn(5))
				src, _ := renderItems(items, false)
				if r.Intn(2) == 0 {
					src += " \"abc" + []string{"", "\\", "\n x", " `"}[r.Intn(4)] // unterminated string
				} else {
					src += " " + string([]byte{[]byte{'#', '$', '?', '~', '^', '\\', '\'', 0x80, 0xc3, 1, '&'}[r.Intn(11)]}) + " x"
				}
				id := g.addCase("lex", hx(src))
				g.addExpect("lex", id, "err")
				errs++
			default: // arbitrary bytes (model vs implementation only)
				m := r.Intn(24)
				b := make([]byte, m)
				const biased = "\"`\\/*-.0123456789 \n\rtruefalse_aZ=+<>!&|:;,@%(){}[]\t"
				for j := range b {
					if r.Intn(5) == 0 {
						b[j] = byte(r.Intn(256))
					} else {
						b[j] = biased[r.Intn(len(biased))]
					}
				}
				g.addCase("lex", hx(string(b)))
				garbage++
			}
		}
		g.meta["lex_item_kinds"] = kinds
		g.meta["lex_valid_sequences"] = valid
		g.meta["lex_error_cases"] = errs
		g.meta["lex_random_bytes"] = garbage
	}
}
