module verif/harness

go 1.22.2

require github.com/monstermichl/typeshell v0.0.0

replace github.com/monstermichl/typeshell => /repo
