package main

import (
	"go/ast"
	"go/parser"
	"go/token"
	"math/rand"
	"path/filepath"
	"sort"
	"strconv"
	"strings"
)

// suitePrograms extracts the TypeShell sources embedded in /repo/tests/*.go (raw string literals
// passed to the transpile helpers) -- the programs the pinned suite runs.
func suitePrograms() []string {
	files, _ := filepath.Glob("/repo/tests/*.go")
	sort.Strings(files)
	out := []string{}
	seen := map[string]bool{}
	for _, f := range files {
		if strings.HasSuffix(f, "_test.go") {
			continue
		}
		fset := token.NewFileSet()
		af, err := parser.ParseFile(fset, f, nil, 0)
		if err != nil {
			continue
		}
		ast.Inspect(af, func(n ast.Node) bool {
			if bl, ok := n.(*ast.BasicLit); ok && bl.Kind == token.STRING && strings.HasPrefix(bl.Value, "`") {
				s, err := strconv.Unquote(bl.Value)
				if err == nil && strings.Contains(s, "\n") && !seen[s] {
					seen[s] = true
					out = append(out, s)
				}
			}
			return true
		})
	}
	return out
}

func init() {
	streams["suite"] = func(r *rand.Rand, n int, g *genOut) {
		progs := suitePrograms()
		for _, src := range progs {
			f := progFields("main.tsh", map[string]string{"main.tsh": src}, strings.Contains(src, "import"))
			g.addCase("parse", f...)
			g.addCase("emit", f...)
		}
		g.meta["suite_programs"] = len(progs)
	}
}
