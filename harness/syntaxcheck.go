package main

import (
	"os"
	"os/exec"
	"path/filepath"
	"regexp"
	"strings"
)

// bashSyntax runs the real `bash -n` on a script.
func bashSyntax(script string) string {
	dir, _ := os.MkdirTemp("", "bn")
	defer os.RemoveAll(dir)
	p := filepath.Join(dir, "s.sh")
	os.WriteFile(p, []byte(script), 0644)
	if err := exec.Command("/bin/bash", "-n", p).Run(); err != nil {
		return "bad"
	}
	return "ok"
}

var (
	reLabel = regexp.MustCompile(`^:([A-Za-z0-9_]+)$`)
	reGoto  = regexp.MustCompile(`goto :?([A-Za-z0-9_]+)`)
	reCallL = regexp.MustCompile(`^call :([A-Za-z0-9_]+)`)
	reLoopN = regexp.MustCompile(`^_[fe]([0-9]+)$`)
)

var batchHelpers = []string{"_ach", "_frh", "_fwh", "_sls", "_slg", "_sah", "_sch", "_stsh", "_stlh", "_ech"}

// batchSyntax checks the text of a Batch script as the property demands: balanced parenthesised blocks,
// labels defined once, every goto/call target defined, helper routines present exactly when called,
// loop jumps between the loop's start and end label.
func batchSyntax(script string) string {
	lines := strings.Split(strings.ReplaceAll(script, "\r\n", "\n"), "\n")
	labels := map[string][]int{}
	depth := 0
	type jump struct {
		target string
		at     int
	}
	gotos := []jump{}
	calls := map[string]bool{}
	for i, l := range lines {
		if m := reLabel.FindStringSubmatch(l); m != nil {
			labels[m[1]] = append(labels[m[1]], i)
			continue
		}
		if strings.HasPrefix(l, "::") {
			continue
		}
		if m := reCallL.FindStringSubmatch(l); m != nil {
			calls[m[1]] = true
		}
		for _, m := range reGoto.FindAllStringSubmatch(l, -1) {
			gotos = append(gotos, jump{m[1], i})
		}
		if l == "(set LF=^" || (l == ")" && i > 0 && lines[i-1] == "" && i > 1 && lines[i-2] == "(set LF=^") {
			continue // the LF definition idiom: a parenthesis pair around a line continuation
		}
		if strings.HasPrefix(l, ")") {
			depth--
			if depth < 0 {
				return "bad:paren-underflow"
			}
		}
		if strings.HasSuffix(l, "(") {
			depth++
		}
	}
	if depth != 0 {
		return "bad:parens-unbalanced"
	}
	for n, at := range labels {
		if len(at) > 1 {
			return "bad:duplicate-label-" + n
		}
	}
	for _, g := range gotos {
		at, ok := labels[g.target]
		if !ok {
			return "bad:undefined-goto-" + g.target
		}
		_ = at
		if m := reLoopN.FindStringSubmatch(g.target); m != nil {
			f, okf := labels["_f"+m[1]]
			e, oke := labels["_e"+m[1]]
			if !okf || !oke || !(f[0] < g.at && g.at < e[0]) {
				return "bad:loop-jump-outside-" + g.target
			}
		}
	}
	for c := range calls {
		if _, ok := labels[c]; !ok {
			return "bad:undefined-call-" + c
		}
	}
	for _, h := range batchHelpers {
		_, def := labels[h]
		if def != calls[h] {
			return "bad:helper-" + h
		}
	}
	return "ok"
}
