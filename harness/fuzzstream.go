package main

import (
	"fmt"
	"math/rand"
	"regexp"
	"strings"
)

var fuzzTokRe = regexp.MustCompile("(?s)\"(?:\\\\.|[^\"\\\\])*\"|`[^`]*`|//[^\n]*|/\\*.*?\\*/|[A-Za-z_][A-Za-z0-9_]*|[0-9]+|==|!=|<=|>=|&&|\\|\\||\\+=|-=|\\*=|/=|%=|:=|\\+\\+|--|\\s+|.")

var fuzzPool = []string{"if", "else", "for", "switch", "case", "default", "func", "return", "var", "range", "break", "continue", "import",
	"print", "len", "copy", "itoa", "input", "read", "write", "exists", "panic", "int", "bool", "string", "error", "nil", "true", "false",
	"(", ")", "[", "]", "{", "}", ",", ":", ";", ".", "=", ":=", "==", "!=", "<", "<=", ">", ">=", "&&", "||", "!", "+", "-", "*", "/", "%",
	"+=", "++", "--", "@", "|", "\n", "\n\n", " ", "x", "y", "f", "s", "0", "1", "-1", "42", "\"a\"", "\"\"", "`r`", "[]int{1}", "[]string{}", "1.5",
	"99999999999999999999", "/*c*/", "// c\n", "/*/", "/*", "*/", "/**/", "//", "\"", "`", "\\", "'", "$", "#", "\r\n", "\t",
	"a, b := f()", "x, y, z := @echo(\"hi\")", "var s []int", "s[0] = 1", "for i, v := range s {\n}", "switch {\ncase true:\n}", "import \"strings\"\n"}

// mutateSource applies k token-level edits (delete, duplicate, swap, replace, insert) or a truncation.
func mutateSource(r *rand.Rand, src string, k int) string {
	toks := fuzzTokRe.FindAllString(src, -1)
	if len(toks) == 0 {
		return src
	}
	for e := 0; e < k; e++ {
		i := r.Intn(len(toks))
		switch r.Intn(8) {
		case 6:
			// one more element in a list: ", x" in front of a closing parenthesis / brace or behind a value (calls with a
			// surplus argument, returns and definitions with a surplus value)
			extra := []string{"1", "x", "\"a\"", "true", "f()", "[]int{1}"}[r.Intn(6)]
			for j := 0; j < len(toks); j++ {
				k := (i + j) % len(toks)
				if toks[k] == ")" || toks[k] == "}" || toks[k] == "\n" {
					toks = append(toks[:k], append([]string{", ", extra}, toks[k:]...)...)
					break
				}
			}
		case 7:
			// one element less: drop from a comma to the token in front of the next comma / closing parenthesis
			for j := 0; j < len(toks); j++ {
				k := (i + j) % len(toks)
				if toks[k] == "," {
					e2 := k + 1
					for e2 < len(toks) && toks[e2] != "," && toks[e2] != ")" && toks[e2] != "\n" {
						e2++
					}
					toks = append(toks[:k], toks[e2:]...)
					break
				}
			}
		case 0:
			toks = append(toks[:i], toks[i+1:]...)
		case 1:
			toks = append(toks[:i+1], toks[i:]...)
		case 2:
			if i+1 < len(toks) {
				toks[i], toks[i+1] = toks[i+1], toks[i]
			}
		case 3:
			toks[i] = fuzzPool[r.Intn(len(fuzzPool))]
		case 4:
			toks = append(toks[:i], append([]string{fuzzPool[r.Intn(len(fuzzPool))]}, toks[i:]...)...)
		case 5:
			toks = toks[:i]
		}
		if len(toks) == 0 {
			break
		}
	}
	return strings.Join(toks, "")
}

func randomSourceBytes(r *rand.Rand) string {
	n := r.Intn(40)
	var b strings.Builder
	for i := 0; i < n; i++ {
		switch r.Intn(4) {
		case 0:
			b.WriteByte(byte(r.Intn(256)))
		default:
			b.WriteString(fuzzPool[r.Intn(len(fuzzPool))])
			if r.Intn(2) == 0 {
				b.WriteByte(' ')
			}
		}
	}
	return b.String()
}

// importGraphCase: up to 4 files importing each other in arbitrary ways (chains, diamonds, cycles, self-import,
// missing files, repeated aliases, std), each with a few definitions and top-level statements.
func importGraphCase(r *rand.Rand) (map[string]string, bool) {
	names := []string{"main.tsh", "a.tsh", "b.tsh", "sub/c.tsh"}
	nfiles := 2 + r.Intn(3)
	files := map[string]string{}
	std := false
	for i := 0; i < nfiles; i++ {
		var sb strings.Builder
		imps := []string{}
		for j := 0; j < nfiles+1; j++ {
			if r.Intn(3) != 0 {
				continue
			}
			switch {
			case j == nfiles && r.Intn(2) == 0:
				imps = append(imps, "\"strings\"")
				std = true
			case j == nfiles:
				imps = append(imps, fmt.Sprintf("m%d \"missing.tsh\"", i))
			default:
				target := names[j]
				// paths are relative to the importing file's directory
				if strings.HasPrefix(names[i], "sub/") {
					if strings.HasPrefix(target, "sub/") {
						target = strings.TrimPrefix(target, "sub/")
					} else {
						continue // would need "..", not modelled
					}
				}
				alias := fmt.Sprintf("p%d", j)
				if r.Intn(6) == 0 {
					alias = "p0" // repeated alias
				}
				if r.Intn(8) == 0 {
					alias = "" // missing alias for a local import
				}
				imps = append(imps, strings.TrimSpace(alias+" \""+target+"\""))
			}
		}
		if len(imps) == 1 && r.Intn(2) == 0 {
			sb.WriteString("import " + imps[0] + "\n")
		} else if len(imps) > 0 {
			sb.WriteString("import (\n")
			for _, im := range imps {
				sb.WriteString("\t" + im + "\n")
			}
			sb.WriteString(")\n")
		}
		tag := string(rune('A' + i))
		sb.WriteString(fmt.Sprintf("var G%s int = %d\nvar g%s = \"%s\"\n", tag, i, tag, tag))
		sb.WriteString(fmt.Sprintf("func priv%s() int {\n\treturn G%s + 1\n}\n", tag, tag))
		sb.WriteString(fmt.Sprintf("func Pub%s(n int) int {\n\tG%s = G%s + n\n\treturn priv%s() + n\n}\n", tag, tag, tag, tag))
		sb.WriteString(fmt.Sprintf("func Unused%s() {\n\tprint(\"u\")\n}\n", tag))
		if r.Intn(2) == 0 {
			sb.WriteString(fmt.Sprintf("print(\"init %s\", Pub%s(1))\n", tag, tag))
		}
		// top-level definitions from multi-value calls, commands and slices in (possibly imported) files
		switch r.Intn(6) {
		case 0:
			sb.WriteString(fmt.Sprintf("func pair%s() (int, string) {\n\treturn 1, \"p\"\n}\nNum%s, Name%s := pair%s()\nvar u%s, w%s = pair%s()\n", tag, tag, tag, tag, tag, tag, tag))
		case 1:
			sb.WriteString(fmt.Sprintf("Out%s, errOut%s, Code%s := @echo(\"hi\")\n", tag, tag, tag))
		case 2:
			sb.WriteString(fmt.Sprintf("List%s := []int{1, 2}\nList%s[3] = 4\nfor i%s, v%s := range List%s {\n\tprint(i%s, v%s)\n}\n", tag, tag, tag, tag, tag, tag, tag))
		}
		// calls through aliases that may or may not exist
		for j := 0; j < nfiles; j++ {
			if r.Intn(3) == 0 {
				sb.WriteString(fmt.Sprintf("print(p%d.Pub%s(2))\n", j, string(rune('A'+j))))
			}
		}
		if r.Intn(6) == 0 {
			sb.WriteString(fmt.Sprintf("print(p1.priv%s())\n", "B"))
		}
		files[names[i]] = sb.String()
	}
	return files, std
}

func init() {
	streams["fuzz"] = func(r *rand.Rand, n int, g *genOut) {
		base := suitePrograms()
		kinds := map[string]int{}
		for i := 0; i < n; i++ {
			var files map[string]string
			std := false
			switch k := i % 10; {
			case k < 4:
				src := mutateSource(r, base[r.Intn(len(base))], 1+r.Intn(2))
				files = map[string]string{"main.tsh": src}
				std = strings.Contains(src, "import")
				kinds["token-edit"]++
			case k < 5:
				src := base[r.Intn(len(base))]
				files = map[string]string{"main.tsh": src[:r.Intn(len(src)+1)]}
				std = strings.Contains(src, "import")
				kinds["truncation"]++
			case k < 7:
				files = map[string]string{"main.tsh": randomSourceBytes(r)}
				kinds["random"]++
			case k < 8:
				files = map[string]string{"other.tsh": "print(1)\n"} // the main file does not exist
				kinds["missing-main"]++
			default:
				files, std = importGraphCase(r)
				kinds["import-graph"]++
			}
			f := progFields("main.tsh", files, std)
			g.addCase("parse", f...)
			g.addCase("emit", f...)
		}
		// near misses of valid programs in which a list has one element too many or too few
		for _, src := range arityNearMisses {
			f := progFields("main.tsh", map[string]string{"main.tsh": src}, false)
			g.addCase("parse", f...)
			g.addCase("emit", f...)
			kinds["arity-near-miss"]++
		}
		// near misses in which a call without results stands where a value is required
		for _, use := range voidValueUses {
			for _, wrap := range []string{"%s", "func body0() {\n%s}\nbody0()\n"} {
				src := voidPrelude + fmt.Sprintf(wrap, use)
				f := progFields("main.tsh", map[string]string{"main.tsh": src}, false)
				g.addCase("parse", f...)
				g.addCase("emit", f...)
				kinds["no-value-near-miss"]++
			}
		}
		// every kind of simple statement as the first and as the third clause of a three-clause loop (valid ones and near misses)
		for _, ini := range loopInitClauses {
			for _, post := range loopPostClauses {
				if ini != loopInitClauses[0] && post != loopPostClauses[0] {
					continue // one clause varies at a time
				}
				body := fmt.Sprintf("for %s; a < 3; %s {\n\tprint(a, b)\n\tif a > 5 {\n\t\tbreak\n\t}\n}\n", ini, post)
				// the variables declared before the loop: both (assignment forms), only the second one, none (defining forms)
				for _, decl := range []string{"var a, b int\n", "var b int\n", ""} {
					for _, wrap := range []string{"%s", "func body0() {\n%s}\nbody0()\n"} {
						src := loopClausePrelude + fmt.Sprintf(wrap, decl+body)
						f := progFields("main.tsh", map[string]string{"main.tsh": src}, false)
						g.addCase("parse", f...)
						g.addCase("emit", f...)
						kinds["loop-clause"]++
					}
				}
			}
		}
		g.meta["fuzz_kinds"] = kinds
	}
}

const loopClausePrelude = "func pair() (int, int) {\n\treturn 0, 7\n}\nfunc one(n int) int {\n\treturn n\n}\n"

// the first entry of each list is the plain form; the loop variable is a, the second variable b
var loopInitClauses = []string{
	"a = 0", "a := 0", "var a = 0", "var a int = 0", "var a int", "a, b = 1, 2", "a, b := 1, 2", "var a, b = 1, 2", "var a, b int = 1, 2",
	"var a, b int", "a, b = pair()", "a, b := pair()", "var a, b = pair()", "var a, b int = pair()", "a = one(1)", "a := one(1)",
	"var a = one(1)", "a++", "a += 1", "print(1)", "one(1)", "pair()", "a, b = b, a", "", "var a = pair()", "a := pair()", "var a, b = one(1)",
}

var loopPostClauses = []string{
	"a++", "a--", "a += 1", "a = a + 1", "a, b = a + 1, a", "a, b = pair()", "a, b := pair()", "var z = 1", "z := 1", "var a, b = pair()", "print(a)", "one(1)",
	"pair()", "", "a = one(a + 1)", "a, b = b + 1, a + 1",
}

const voidPrelude = "func nv() {\n\tprint(\"nv\")\n}\nfunc id(n int) int {\n\treturn n\n}\n"

var voidValueUses = []string{
	"@echo(nv())\n",
	"@echo(\"a\", nv())\n",
	"@echo(\"a\") | @cat(nv())\n",
	"o, e, c := @echo(nv())\nprint(o, e, c)\n",
	"switch nv() {\ncase nv():\n\tprint(1)\n}\n",
	"switch nv() {\ncase 1:\n\tprint(1)\n}\n",
	"switch 1 {\ncase nv():\n\tprint(1)\n}\n",
	"switch {\ncase nv():\n\tprint(1)\n}\n",
	"x := nv()\nprint(x)\n",
	"var x int = nv()\nprint(x)\n",
	"x := 1\nx = nv()\nprint(x)\n",
	"x := 1\nx += nv()\nprint(x)\n",
	"a, b := nv(), 1\nprint(a, b)\n",
	"a, b := 1, nv()\nprint(a, b)\n",
	"print(nv())\n",
	"print(1, nv())\n",
	"print(nv() + 1)\n",
	"print(1 - nv())\n",
	"print(nv() == nv())\n",
	"print(nv() != 1)\n",
	"print(nv() < nv())\n",
	"print(!nv())\n",
	"print(nv() && true)\n",
	"print(true || nv())\n",
	"print((nv()))\n",
	"print(id(nv()))\n",
	"print(itoa(nv()))\n",
	"print(len(nv()))\n",
	"if nv() {\n\tprint(1)\n}\n",
	"if false {\n} else if nv() {\n\tprint(1)\n}\n",
	"for nv() {\n\tbreak\n}\n",
	"for i := 0; nv(); i++ {\n\tbreak\n}\n",
	"for i := nv(); i < 1; i++ {\n\tbreak\n}\n",
	"for i, x := range nv() {\n\tprint(i, x)\n}\n",
	"xs := []int{nv()}\nprint(len(xs))\n",
	"xs := []int{1}\nprint(xs[nv()])\n",
	"xs := []int{1}\nxs[nv()] = 1\n",
	"xs := []int{1}\nxs[0] = nv()\n",
	"xs := []int{1}\nxs = append(xs, nv())\n",
	"xs := []int{1}\nprint(copy(xs, nv()))\n",
	"s := \"abc\"\nprint(s[nv():2])\n",
	"s := \"abc\"\nprint(s[0:nv()])\n",
	"s := \"abc\"\nprint(s + nv())\n",
	"write(nv(), \"d\")\n",
	"write(\"p\", nv())\n",
	"write(\"p\", \"d\", nv())\n",
	"print(read(nv()))\n",
	"print(exists(nv()))\n",
	"q := input(nv())\nprint(q)\n",
	"panic(nv())\n",
}

const arityPrelude = "func one(n int) int {\n\treturn n * 2\n}\nfunc none() int {\n\treturn 7\n}\nfunc two(a int, b string) (int, string) {\n\treturn a, b\n}\nfunc void(a int) {\n\tprint(a)\n}\n"

var arityNearMisses = []string{
	arityPrelude + "print(one(1, 2))\n",
	arityPrelude + "print(one())\n",
	arityPrelude + "print(none(1))\n",
	arityPrelude + "x := one(1, 2, 3)\nprint(x)\n",
	arityPrelude + "a, b := two(1, \"s\", 3)\nprint(a, b)\n",
	arityPrelude + "a, b := two(1)\nprint(a, b)\n",
	arityPrelude + "a, b, c := two(1, \"s\")\nprint(a, b, c)\n",
	arityPrelude + "a := two(1, \"s\")\nprint(a)\n",
	arityPrelude + "void(1, 2)\n",
	arityPrelude + "void()\n",
	arityPrelude + "print(one(one(1, 2)))\n",
	arityPrelude + "print(one(none(3)))\n",
	arityPrelude + "for i := 0; i < one(1, 2); i++ {\n\tprint(i)\n}\n",
	arityPrelude + "if one(1, 2) > 0 {\n\tprint(1)\n}\n",
	"func r1() int {\n\treturn 1, 2\n}\nprint(r1())\n",
	"func r2() (int, int) {\n\treturn 1\n}\na, b := r2()\nprint(a, b)\n",
	"func r0() {\n\treturn 1\n}\nr0()\n",
	"a, b := 1\nprint(a, b)\n",
	"a := 1, 2\nprint(a)\n",
	"var a, b int = 1\nprint(a, b)\n",
	"var a int = 1, 2\nprint(a)\n",
	"a, b := 1, 2\na, b = 3\nprint(a, b)\n",
	"a := 1\na = 2, 3\nprint(a)\n",
	"xs := []int{1, 2}\nprint(len(xs, xs))\n",
	"xs := []int{1, 2}\nys := []int{}\nprint(copy(ys))\n",
	"xs := []int{1, 2}\nys := []int{}\nprint(copy(ys, xs, xs))\n",
	"print(itoa(1, 2))\n",
	"print(itoa())\n",
}
