package main

// Stream and runner "strlib" (property C15): every function of the bundled std/strings.tsh, compiled to
// Bash and executed, must return what the Go function of the same name returns.
//
// CASE FORMAT   strlib <id> <Func> <arg1> <arg2> ...
//   string arg   : hex of its bytes (the empty string is the empty field)
//   int arg      : decimal text
//   []string arg : the element hex strings joined by "," inside one field; the empty field is the EMPTY
//                  slice, the single character "-" is the slice with ONE EMPTY string (every other slice
//                  is unambiguous: "," is ["",""], ",61" is ["","a"]).
//   Trailing empty fields may be lost by line trimming; the runner pads missing fields with "" (= empty
//   string / empty slice), which is exactly their meaning.
//
// OBSERVATION FORMAT (one line): the results of the call in order, joined by ","
//   string  : hex of its bytes        bool : "1"/"0"        int : decimal
//   []string: "n=<len>:" followed by the element hex strings joined by ",", e.g. n=3:61,,62 (n=0: is empty)
//   (a []string result is only ever the sole result, so the "," are unambiguous)
//   Instead of that the runner returns: "transpile-err" (or "transpile-err:<detail>" for an empty error, an error with
//   a script, or the in-process watchdog's timeout/panic), "timeout", "stderr:<hex of stderr>",
//   "exit:<code>" (non-zero exit, silent stderr), "badout:<hex of stdout>" (stdout does not have the shape
//   the printing protocol produces), "bad-case" (malformed case), "unencodable-arg".
//
// ARGUMENT SPACE: strings of length 0..4 (0..5 for the one-argument function TrimSpace) over {'a','b',' '},
//   Replace's n in -2..4, Repeat's count in 0..4 (negative counts panic in Go: excluded), Join's elems are
//   slices of 0..4 such strings.
//
// SIZE PARAMETER n: the cases are spread evenly over the selected functions (quota = n / #functions, the
//   remainder goes to the first functions).  For each function:
//     - n <= 0 or quota >= size of the function's space: the space is ENUMERATED EXHAUSTIVELY when it has
//       fewer than strlibExhaustLimit tuples; otherwise it is sampled (quota samples, or strlibBigSample
//       samples when n <= 0);
//     - otherwise quota DISTINCT tuples are sampled; the sampler draws the length of every string uniformly
//       first, so that empty and short arguments are dense.
//   The optional environment variable STRLIB_FUNCS (comma separated function names) restricts the stream to
//   those functions (used to enumerate single functions exhaustively: STRLIB_FUNCS=Repeat harness gen strlib 1 0 dir).
//   All randomness comes from r.
//
// PRINTING PROTOCOL of the runner: every string value v is printed as print("<" + v + ">"), i.e.
//   echo "<...>", which keeps leading/trailing/double blanks of a *scalar* string value; ints and bools are
//   printed bare; a returned slice is printed as its len followed by one "<elem>" line per element
//   (for i, e := range(v0)).
//   OBSERVABILITY CAVEAT (not a property of print): the Bash converter reads a slice element with
//   $(eval "echo \${name[i]}") -- unquoted -- so any slice ELEMENT loses leading/trailing blanks and has
//   inner blank runs collapsed before a TypeShell program can see it.  There is no TypeShell-level way to
//   read an element that avoids this, so for Split (results) the observed elements are what any TypeShell
//   caller gets; disagreements whose expected elements contain such blanks are attributable to the
//   converter's element read rather than to Split itself.  The same read happens inside Join (elems[i]).
//   These cases are deliberately NOT excluded from the stream (they are genuine C15 violations as seen by a
//   user); strlibBlankSensitive() identifies them so that a consumer can separate the class.
//   Values with newlines cannot be observed line-wise and never occur with this alphabet.

import (
	"bytes"
	"math/rand"
	"os"
	"os/exec"
	"path/filepath"
	"strconv"
	"strings"
	"sync"
)

const strlibExhaustLimit = 60000 // spaces below this many tuples are enumerated when n <= 0 / quota >= size
const strlibBigSample = 20000    // samples per function for larger spaces when n <= 0

var strlibAlphabet = []byte{'a', 'b', ' '}

// sig: 's' string, 'L' []string, 'i' int in -2..4, 'r' int in 0..4.   res: 's' string, 'b' bool, 'i' int, 'L' []string.
type strlibFn struct{ name, sig, res string }

var strlibFns = []strlibFn{
	{"Index", "ss", "i"}, {"Contains", "ss", "b"}, {"Join", "Ls", "s"}, {"HasPrefix", "ss", "b"},
	{"HasSuffix", "ss", "b"}, {"Count", "ss", "i"}, {"Split", "ss", "L"}, {"Repeat", "sr", "s"},
	{"Replace", "sssi", "s"}, {"ReplaceAll", "sss", "s"}, {"Cut", "ss", "ssb"}, {"CutPrefix", "ss", "sb"},
	{"CutSuffix", "ss", "sb"}, {"TrimPrefix", "ss", "s"}, {"TrimSuffix", "ss", "s"}, {"TrimLeft", "ss", "s"},
	{"TrimRight", "ss", "s"}, {"Trim", "ss", "s"}, {"TrimSpace", "s", "s"},
}

func strlibLookup(name string) *strlibFn {
	for i := range strlibFns {
		if strlibFns[i].name == name {
			return &strlibFns[i]
		}
	}
	return nil
}

func (fn *strlibFn) maxLen() int {
	if len(fn.sig) == 1 {
		return 5
	}
	return 4
}

// strlibAllStrs lists all strings of length 0..maxLen over the alphabet, shortest first.
var strlibAllCache = map[int][]string{}

func strlibAllStrs(maxLen int) []string {
	if l, ok := strlibAllCache[maxLen]; ok {
		return l
	}
	out := []string{""}
	prev := []string{""}
	for l := 1; l <= maxLen; l++ {
		cur := []string{}
		for _, p := range prev {
			for _, c := range strlibAlphabet {
				cur = append(cur, p+string(c))
			}
		}
		out = append(out, cur...)
		prev = cur
	}
	strlibAllCache[maxLen] = out
	return out
}

// argRadix: number of values of one argument position (slices: 1+121+121^2+121^3+121^4).
func (fn *strlibFn) argRadix(k byte) int64 {
	ns := int64(len(strlibAllStrs(fn.maxLen())))
	switch k {
	case 's':
		return ns
	case 'i':
		return 7
	case 'r':
		return 5
	case 'L':
		t, p := int64(0), int64(1)
		for i := 0; i <= 4; i++ {
			t += p
			p *= ns
		}
		return t
	}
	return 1
}

func (fn *strlibFn) spaceSize() int64 {
	t := int64(1)
	for i := 0; i < len(fn.sig); i++ {
		t *= fn.argRadix(fn.sig[i])
	}
	return t
}

func strlibEncSlice(l []string) string {
	if len(l) == 0 {
		return ""
	}
	if len(l) == 1 && l[0] == "" {
		return "-"
	}
	h := make([]string, len(l))
	for i, e := range l {
		h[i] = hx(e)
	}
	return strings.Join(h, ",")
}

func strlibDecSlice(f string) []string {
	if f == "" {
		return []string{}
	}
	if f == "-" {
		return []string{""}
	}
	out := []string{}
	for _, e := range strings.Split(f, ",") {
		out = append(out, unhx(e))
	}
	return out
}

// nth decodes a tuple index (mixed radix, last argument fastest) into encoded case fields.
func (fn *strlibFn) nth(idx int64) []string {
	strs := strlibAllStrs(fn.maxLen())
	out := make([]string, len(fn.sig))
	for i := len(fn.sig) - 1; i >= 0; i-- {
		rad := fn.argRadix(fn.sig[i])
		d := idx % rad
		idx /= rad
		switch fn.sig[i] {
		case 's':
			out[i] = hx(strs[d])
		case 'i':
			out[i] = strconv.Itoa(int(d) - 2)
		case 'r':
			out[i] = strconv.Itoa(int(d))
		case 'L': // slices in order of length, then elementwise
			ns := int64(len(strs))
			k, p := 0, int64(1)
			for d >= p {
				d -= p
				p *= ns
				k++
			}
			l := make([]string, k)
			for j := k - 1; j >= 0; j-- {
				l[j] = strs[d%ns]
				d /= ns
			}
			out[i] = strlibEncSlice(l)
		}
	}
	return out
}

func strlibRandStr(r *rand.Rand, maxLen int) string {
	b := make([]byte, r.Intn(maxLen+1))
	for i := range b {
		b[i] = strlibAlphabet[r.Intn(len(strlibAlphabet))]
	}
	return string(b)
}

func (fn *strlibFn) sample(r *rand.Rand) []string {
	out := make([]string, len(fn.sig))
	for i := 0; i < len(fn.sig); i++ {
		switch fn.sig[i] {
		case 's':
			out[i] = hx(strlibRandStr(r, fn.maxLen()))
		case 'i':
			out[i] = strconv.Itoa(r.Intn(7) - 2)
		case 'r':
			out[i] = strconv.Itoa(r.Intn(5))
		case 'L':
			l := make([]string, r.Intn(5))
			for j := range l {
				l[j] = strlibRandStr(r, fn.maxLen())
			}
			out[i] = strlibEncSlice(l)
		}
	}
	return out
}

type strlibArg struct {
	s string
	l []string
	i int
}

func (fn *strlibFn) decode(f []string) (args []strlibArg, ok bool) {
	defer func() {
		if recover() != nil {
			ok = false
		}
	}()
	for i := 0; i < len(fn.sig); i++ {
		v := ""
		if i < len(f) {
			v = f[i]
		}
		a := strlibArg{}
		switch fn.sig[i] {
		case 's':
			a.s = unhx(v)
		case 'L':
			a.l = strlibDecSlice(v)
		default:
			n, err := strconv.Atoi(v)
			if err != nil {
				return nil, false
			}
			a.i = n
		}
		args = append(args, a)
	}
	return args, true
}

func strlibObsB(b bool) string {
	if b {
		return "1"
	}
	return "0"
}

func strlibObsL(l []string) string {
	h := make([]string, len(l))
	for i, e := range l {
		h[i] = hx(e)
	}
	return "n=" + strconv.Itoa(len(l)) + ":" + strings.Join(h, ",")
}

// strlibExpect evaluates the case with Go's strings package.
func strlibExpect(name string, f []string) string {
	fn := strlibLookup(name)
	if fn == nil {
		return "bad-case"
	}
	a, ok := fn.decode(f)
	if !ok {
		return "bad-case"
	}
	switch name {
	case "Index":
		return strconv.Itoa(strings.Index(a[0].s, a[1].s))
	case "Contains":
		return strlibObsB(strings.Contains(a[0].s, a[1].s))
	case "Join":
		return hx(strings.Join(a[0].l, a[1].s))
	case "HasPrefix":
		return strlibObsB(strings.HasPrefix(a[0].s, a[1].s))
	case "HasSuffix":
		return strlibObsB(strings.HasSuffix(a[0].s, a[1].s))
	case "Count":
		return strconv.Itoa(strings.Count(a[0].s, a[1].s))
	case "Split":
		return strlibObsL(strings.Split(a[0].s, a[1].s))
	case "Repeat":
		if a[1].i < 0 {
			return "bad-case" // panics in Go: outside the property
		}
		return hx(strings.Repeat(a[0].s, a[1].i))
	case "Replace":
		return hx(strings.Replace(a[0].s, a[1].s, a[2].s, a[3].i))
	case "ReplaceAll":
		return hx(strings.ReplaceAll(a[0].s, a[1].s, a[2].s))
	case "Cut":
		x, y, z := strings.Cut(a[0].s, a[1].s)
		return hx(x) + "," + hx(y) + "," + strlibObsB(z)
	case "CutPrefix":
		x, z := strings.CutPrefix(a[0].s, a[1].s)
		return hx(x) + "," + strlibObsB(z)
	case "CutSuffix":
		x, z := strings.CutSuffix(a[0].s, a[1].s)
		return hx(x) + "," + strlibObsB(z)
	case "TrimPrefix":
		return hx(strings.TrimPrefix(a[0].s, a[1].s))
	case "TrimSuffix":
		return hx(strings.TrimSuffix(a[0].s, a[1].s))
	case "TrimLeft":
		return hx(strings.TrimLeft(a[0].s, a[1].s))
	case "TrimRight":
		return hx(strings.TrimRight(a[0].s, a[1].s))
	case "Trim":
		return hx(strings.Trim(a[0].s, a[1].s))
	case "TrimSpace":
		return hx(strings.TrimSpace(a[0].s))
	}
	return "bad-case"
}

// strlibBlankSensitive reports whether a case involves a slice ELEMENT (Join argument, Split result) that
// the Bash converter's unquoted element read cannot carry: leading/trailing blank or a run of blanks.
func strlibBlankSensitive(name string, f []string) bool {
	fn := strlibLookup(name)
	if fn == nil {
		return false
	}
	a, ok := fn.decode(f)
	if !ok {
		return false
	}
	var elems []string
	switch name {
	case "Join":
		elems = a[0].l
	case "Split":
		elems = strings.Split(a[0].s, a[1].s)
	}
	for _, e := range elems {
		if strings.Join(strings.Fields(e), " ") != e {
			return true
		}
	}
	return false
}

func strlibSelected() []strlibFn {
	env := os.Getenv("STRLIB_FUNCS")
	if env == "" {
		return strlibFns
	}
	out := []strlibFn{}
	for _, n := range strings.Split(env, ",") {
		if fn := strlibLookup(strings.TrimSpace(n)); fn != nil {
			out = append(out, *fn)
		} else {
			die("STRLIB_FUNCS: unknown function %q", n)
		}
	}
	return out
}

func strlibStream(r *rand.Rand, n int, g *genOut) {
	fns := strlibSelected()
	per := map[string]int{}
	mode := map[string]string{}
	blank := 0
	emit := func(fn *strlibFn, fields []string) {
		id := g.addCase("strlib", append([]string{fn.name}, fields...)...)
		g.addExpect("strlib", id, strlibExpect(fn.name, fields))
		per[fn.name]++
		if strlibBlankSensitive(fn.name, fields) {
			blank++
		}
	}
	for k := range fns {
		fn := &fns[k]
		size := fn.spaceSize()
		quota := 0
		if n > 0 {
			quota = n / len(fns)
			if k < n%len(fns) {
				quota++
			}
		}
		whole := n <= 0 || int64(quota) >= size
		if whole && size < strlibExhaustLimit {
			mode[fn.name] = "exhaustive"
			for idx := int64(0); idx < size; idx++ {
				emit(fn, fn.nth(idx))
			}
			continue
		}
		mode[fn.name] = "sample"
		cnt := quota
		if n <= 0 {
			cnt = strlibBigSample
		}
		// distinct samples while the space allows it
		seen := map[string]bool{}
		for tries := 0; len(seen) < cnt && tries < 200*cnt+1000; tries++ {
			c := fn.sample(r)
			key := strings.Join(c, " ")
			if seen[key] {
				continue
			}
			seen[key] = true
			emit(fn, c)
		}
		for idx := int64(0); len(seen) < cnt && idx < size && size < strlibExhaustLimit; idx++ {
			c := fn.nth(idx)
			key := strings.Join(c, " ")
			if !seen[key] {
				seen[key] = true
				emit(fn, c)
			}
		}
	}
	g.meta["strlib_per_function"] = per
	g.meta["strlib_mode"] = mode
	g.meta["strlib_blank_sensitive_slice_cases"] = blank
}

// ---------------------------------------------------------------------------------------------------------
// runner

// strlibLit renders a TypeShell string literal.  The converter does not escape literals (that is property
// C08's business), so bytes that would change the meaning of the literal are refused instead of tested here.
func strlibLit(s string) (string, bool) {
	for i := 0; i < len(s); i++ {
		c := s[i]
		if c < 0x20 || c > 0x7e || c == '"' || c == '\\' || c == '$' || c == '`' {
			return "", false
		}
	}
	return `"` + s + `"`, true
}

// strlibProgram builds the program: the arguments are literals placed directly in the call.
func strlibProgram(fn *strlibFn, a []strlibArg) (string, bool) {
	lits := []string{}
	for i := 0; i < len(fn.sig); i++ {
		switch fn.sig[i] {
		case 's':
			l, ok := strlibLit(a[i].s)
			if !ok {
				return "", false
			}
			lits = append(lits, l)
		case 'L':
			el := []string{}
			for _, e := range a[i].l {
				l, ok := strlibLit(e)
				if !ok {
					return "", false
				}
				el = append(el, l)
			}
			lits = append(lits, "[]string{"+strings.Join(el, ", ")+"}")
		default:
			lits = append(lits, strconv.Itoa(a[i].i))
		}
	}
	vars := []string{}
	for i := range fn.res {
		vars = append(vars, "v"+strconv.Itoa(i))
	}
	var b strings.Builder
	b.WriteString("import \"strings\"\n\n")
	b.WriteString(strings.Join(vars, ", ") + " := strings." + fn.name + "(" + strings.Join(lits, ", ") + ")\n")
	for i := range fn.res {
		switch fn.res[i] {
		case 's':
			b.WriteString("print(\"<\" + " + vars[i] + " + \">\")\n")
		case 'L':
			b.WriteString("print(len(" + vars[i] + "))\n")
			b.WriteString("for i, e := range(" + vars[i] + ") {\n\tprint(\"<\" + e + \">\")\n}\n")
		default:
			b.WriteString("print(" + vars[i] + ")\n")
		}
	}
	return b.String(), true
}

// strlibParse turns the stdout of the program back into the observation format.
func strlibParse(fn *strlibFn, out string) string {
	bad := "badout:" + hx(out)
	if out != "" && !strings.HasSuffix(out, "\n") {
		return bad
	}
	lines := []string{}
	if out != "" {
		lines = strings.Split(strings.TrimSuffix(out, "\n"), "\n")
	}
	pos := 0
	next := func() (string, bool) {
		if pos >= len(lines) {
			return "", false
		}
		pos++
		return lines[pos-1], true
	}
	str := func() (string, bool) {
		l, ok := next()
		if !ok || len(l) < 2 || l[0] != '<' || l[len(l)-1] != '>' {
			return "", false
		}
		return l[1 : len(l)-1], true
	}
	vals := []string{}
	for i := range fn.res {
		switch fn.res[i] {
		case 's':
			s, ok := str()
			if !ok {
				return bad
			}
			vals = append(vals, hx(s))
		case 'b':
			l, ok := next()
			if !ok || (l != "0" && l != "1") {
				return bad
			}
			vals = append(vals, l)
		case 'i':
			l, ok := next()
			n, err := strconv.Atoi(l)
			if !ok || err != nil || strconv.Itoa(n) != l {
				return bad
			}
			vals = append(vals, l)
		case 'L':
			l, ok := next()
			n, err := strconv.Atoi(l)
			if !ok || err != nil || n < 0 || strconv.Itoa(n) != l {
				return bad
			}
			el := []string{}
			for j := 0; j < n; j++ {
				s, ok := str()
				if !ok {
					return bad
				}
				el = append(el, s)
			}
			vals = append(vals, strlibObsL(el))
		}
	}
	if pos != len(lines) {
		return bad
	}
	return strings.Join(vals, ",")
}

// capBuf keeps at most 1 MiB (scripts that loop may flood their output until the timeout).
type strlibCapBuf struct{ b bytes.Buffer }

func (c *strlibCapBuf) Write(p []byte) (int, error) {
	if room := (1 << 20) - c.b.Len(); room > 0 {
		if len(p) > room {
			c.b.Write(p[:room])
		} else {
			c.b.Write(p)
		}
	}
	return len(p), nil
}

var strlibCache = map[string]string{}
var strlibCacheMu sync.Mutex

func runStrlib(f []string) string {
	for len(f) > 3 && f[len(f)-1] == "" { // padding of runCases
		f = f[:len(f)-1]
	}
	key := strings.Join(f[2:], " ")
	strlibCacheMu.Lock()
	v, ok := strlibCache[key]
	strlibCacheMu.Unlock()
	if ok {
		return v
	}
	v = strlibEval(f[2], f[3:])
	strlibCacheMu.Lock()
	strlibCache[key] = v
	strlibCacheMu.Unlock()
	return v
}

func strlibEval(name string, fields []string) string {
	fn := strlibLookup(name)
	if fn == nil {
		return "bad-case"
	}
	args, ok := fn.decode(fields)
	if !ok {
		return "bad-case"
	}
	src, ok := strlibProgram(fn, args)
	if !ok {
		return "unencodable-arg"
	}
	dir, err := os.MkdirTemp("", "strlib")
	if err != nil {
		return "bad-case"
	}
	defer os.RemoveAll(dir)
	srcDir := filepath.Join(dir, "src")
	runDir := filepath.Join(dir, "run") // stays empty: the script's working directory
	os.MkdirAll(srcDir, 0755)
	os.MkdirAll(runDir, 0755)
	mainV := vroot + "/main.tsh"
	real := materialise(srcDir, mainV, []progFile{{mainV, src}})
	t := transpileTo(real, "bash")
	if !strings.HasPrefix(t, "ok:") {
		if t == "err" {
			return "transpile-err"
		}
		return "transpile-err:" + t // err-empty, err-with-script, or the watchdog's timeout / panic
	}
	script := filepath.Join(srcDir, "script.sh")
	if os.WriteFile(script, []byte(unhx(t[3:])), 0755) != nil {
		return "bad-case"
	}
	cmd := exec.Command("timeout", "10", "bash", script)
	cmd.Dir = runDir
	cmd.Env = []string{"PATH=" + os.Getenv("PATH"), "HOME=" + runDir, "LANG=C"}
	var so, se strlibCapBuf
	cmd.Stdout = &so
	cmd.Stderr = &se
	err = cmd.Run()
	code := 0
	if err != nil {
		if ee, ok := err.(*exec.ExitError); ok {
			code = ee.ExitCode()
		} else {
			return "bad-case"
		}
	}
	if code == 124 || code == 137 {
		return "timeout"
	}
	if se.b.Len() > 0 {
		return "stderr:" + hx(se.b.String())
	}
	if code != 0 {
		return "exit:" + strconv.Itoa(code)
	}
	return strlibParse(fn, so.b.String())
}

func init() {
	streams["strlib"] = strlibStream
	runners["strlib"] = runStrlib
}
