package main

import (
	"fmt"
	"math/rand"
	"strings"
)

// Strings with non-ASCII bytes, executed under a UTF-8 locale ("lrun") and under the C locale ("run"): Go's len, s[a:b]
// and range over a string count bytes, whatever the locale of the environment is.
var localePrograms = []struct{ class, src string }{
	{"len", "s := \"h\xc3\xa9llo\"\nprint(len(s))\n"},
	{"subscript", "s := \"h\xc3\xa9llo\"\nprint(s[1:3])\nprint(s[3:])\n"},
	{"subscript-open", "s := \"\xe2\x82\xacuro\"\nt := s[3:]\nprint(t, len(t))\n"},
	{"concat-len", "a := \"\xc3\xbc\"\nb := a + a + \"x\"\nprint(len(b))\n"},
	{"ascii-control", "s := \"hello\"\nprint(len(s), s[1:3], s[3:])\n"},
}

func runLRun(f []string) string { return runRunLocale(f, "C.UTF-8") }

func init() {
	runners["lrun"] = runLRun
	streams["strings-locale"] = func(r *rand.Rand, n int, g *genOut) {
		for _, p := range localePrograms {
			f := progFields("main.tsh", map[string]string{"main.tsh": p.src}, false)
			for _, kind := range []string{"run", "lrun"} {
				id := fmt.Sprintf("%d#%s-%s", g.n, map[string]string{"run": "c", "lrun": "utf8"}[kind], p.class)
				g.n++
				fmt.Fprintf(g.cases, "%s %s %s\n", kind, id, strings.Join(f, " "))
			}
		}
		g.meta["strings_locale_programs"] = len(localePrograms)
	}
}
