package main

import (
	"fmt"
	"math/rand"
)

// sem-* streams: safe generated programs, executed under Bash (implementation) and by the reference
// semantics (driver); script bytes compared with the model's.
func semStream(name string, mk func(r *rand.Rand) GenOpts) {
	streams[name] = func(r *rand.Rand, n int, g *genOut) {
		feats := map[string]int{}
		lines := 0
		for i := 0; i < n; i++ {
			o := mk(r)
			o.Safe = true
			src, fs := GenProgram(r, o)
			for k, v := range fs {
				if v > 0 {
					feats[k]++
				}
			}
			for _, c := range src {
				if c == '\n' {
					lines++
				}
			}
			f := progFields("main.tsh", map[string]string{"main.tsh": src}, false)
			g.addCase("emit", f...)
			g.addCase("run", f...)
		}
		g.meta[name+"_features"] = feats
		g.meta[name+"_avg_lines"] = fmt.Sprintf("%.1f", float64(lines)/float64(max1(n)))
	}
}

func max1(n int) int {
	if n < 1 {
		return 1
	}
	return n
}

func init() {
	semStream("sem-scalar", func(r *rand.Rand) GenOpts {
		return GenOpts{MaxDepth: 2 + r.Intn(4), MaxStmts: 2 + r.Intn(4)}
	})
	semStream("sem-funcs", func(r *rand.Rand) GenOpts {
		return GenOpts{Funcs: true, Slices: r.Intn(3) == 0, Strings: r.Intn(2) == 0, MaxDepth: 2 + r.Intn(3), MaxStmts: 2 + r.Intn(4)}
	})
	semStream("sem-slices", func(r *rand.Rand) GenOpts {
		return GenOpts{Slices: true, Strings: true, Funcs: r.Intn(2) == 0, MaxDepth: 2 + r.Intn(3), MaxStmts: 2 + r.Intn(4)}
	})
	semStream("sem-effects", func(r *rand.Rand) GenOpts {
		return GenOpts{Funcs: true, Effects: true, Slices: r.Intn(2) == 0, Strings: r.Intn(2) == 0, MaxDepth: 2 + r.Intn(3), MaxStmts: 2 + r.Intn(4)}
	})
	semStream("sem-all", func(r *rand.Rand) GenOpts {
		return GenOpts{Funcs: true, Effects: true, Slices: true, Strings: true, MaxDepth: 3 + r.Intn(3), MaxStmts: 3 + r.Intn(4)}
	})
}

// typed-mutants (C06): unsafe-mode programs; those flagged mutated_invalid carry exactly one ill-typed or
// ill-scoped position and must be rejected, all others must be accepted.
func init() {
	streams["typed-mutants"] = func(r *rand.Rand, n int, g *genOut) {
		acc, rej := 0, 0
		for i := 0; i < n; i++ {
			o := GenOpts{Funcs: r.Intn(2) == 0, Slices: r.Intn(2) == 0, Strings: r.Intn(2) == 0, MaxDepth: 2 + r.Intn(3), MaxStmts: 2 + r.Intn(4)}
			src, fs := GenProgram(r, o)
			f := progFields("main.tsh", map[string]string{"main.tsh": src}, false)
			id := g.addCase("emit", f...)
			if fs["mutated_invalid"] > 0 {
				g.addExpect("emit", id, "reject")
				rej++
			} else {
				g.addExpect("emit", id, "accept")
				acc++
			}
		}
		g.meta["typed_mutants_valid"] = acc
		g.meta["typed_mutants_invalid"] = rej
	}
}
