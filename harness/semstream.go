package main

import (
	"fmt"
	"math/rand"
	"strings"
)

// sem-* streams: safe generated programs, executed under Bash (implementation) and by the reference
// semantics (driver); script bytes compared with the model's.
func semStream(name string, mk func(r *rand.Rand) GenOpts) {
	streams[name] = func(r *rand.Rand, n int, g *genOut) {
		feats := map[string]int{}
		lines := 0
		for i := 0; i < n; i++ {
			o := mk(r)
			o.Safe = true
			src, fs := GenProgram(r, o)
			for k, v := range fs {
				if v > 0 {
					feats[k]++
				}
			}
			for _, c := range src {
				if c == '\n' {
					lines++
				}
			}
			f := progFields("main.tsh", map[string]string{"main.tsh": src}, false)
			g.addCase("emit", f...)
			g.addCase("run", f...)
		}
		if name == "sem-effects" {
			// evaluation-order probes: every operand position of every statement kind holds a call that reports itself
			for _, body := range orderProbes {
				f := progFields("main.tsh", map[string]string{"main.tsh": orderPrelude + body}, false)
				g.addCase("emit", f...)
				g.addCase("run", f...)
			}
			g.meta["order_probes"] = len(orderProbes)
		}
		g.meta[name+"_features"] = feats
		g.meta[name+"_avg_lines"] = fmt.Sprintf("%.1f", float64(lines)/float64(max1(n)))
	}
}

func max1(n int) int {
	if n < 1 {
		return 1
	}
	return n
}

func init() {
	semStream("sem-scalar", func(r *rand.Rand) GenOpts {
		return GenOpts{MaxDepth: 2 + r.Intn(4), MaxStmts: 2 + r.Intn(4)}
	})
	semStream("sem-funcs", func(r *rand.Rand) GenOpts {
		return GenOpts{Funcs: true, Slices: r.Intn(3) == 0, Strings: r.Intn(2) == 0, MaxDepth: 2 + r.Intn(3), MaxStmts: 2 + r.Intn(4)}
	})
	semStream("sem-slices", func(r *rand.Rand) GenOpts {
		return GenOpts{Slices: true, Strings: true, Funcs: r.Intn(2) == 0, MaxDepth: 2 + r.Intn(3), MaxStmts: 2 + r.Intn(4)}
	})
	semStream("sem-effects", func(r *rand.Rand) GenOpts {
		return GenOpts{Funcs: true, Effects: true, Slices: r.Intn(2) == 0, Strings: r.Intn(2) == 0, MaxDepth: 2 + r.Intn(3), MaxStmts: 2 + r.Intn(4)}
	})
	semStream("sem-all", func(r *rand.Rand) GenOpts {
		return GenOpts{Funcs: true, Effects: true, Slices: true, Strings: true, MaxDepth: 3 + r.Intn(3), MaxStmts: 3 + r.Intn(4)}
	})
}

// typed-mutants (C06): unsafe-mode programs; those flagged mutated_invalid carry exactly one ill-typed or
// ill-scoped position and must be rejected, all others must be accepted.
func init() {
	streams["typed-mutants"] = func(r *rand.Rand, n int, g *genOut) {
		acc, rej := 0, 0
		for i := 0; i < n; i++ {
			o := GenOpts{Funcs: r.Intn(2) == 0, Slices: r.Intn(2) == 0, Strings: r.Intn(2) == 0, MaxDepth: 2 + r.Intn(3), MaxStmts: 2 + r.Intn(4)}
			src, fs := GenProgram(r, o)
			f := progFields("main.tsh", map[string]string{"main.tsh": src}, false)
			id := g.addCase("emit", f...)
			if fs["mutated_invalid"] > 0 {
				g.addExpect("emit", id, "reject")
				rej++
			} else {
				g.addExpect("emit", id, "accept")
				acc++
			}
		}
		g.meta["typed_mutants_valid"] = acc
		g.meta["typed_mutants_invalid"] = rej
	}
}

// sem-batch (C05): programs of all fragments with small integer literals (32-bit arithmetic); the case kind batrun
// makes the driver run the Batch script under the cmd.exe model; the implementation side is the Bash run.
func init() {
	streams["sem-batch"] = func(r *rand.Rand, n int, g *genOut) {
		feats := map[string]int{}
		// targeted programs first: label allocation, multi-digit indices and lengths, helper corner cases
		for _, t := range batchTargeted {
			f := progFields("main.tsh", map[string]string{"main.tsh": t.src}, false)
			g.addCase("emit", f...)
			id := fmt.Sprintf("%d#%s", g.n, t.tag)
			g.n++
			fmt.Fprintf(g.cases, "batrun %s %s\n", id, strings.Join(f, " "))
			feats["targeted"]++
		}
		for i := 0; i < n; i++ {
			o := GenOpts{Funcs: r.Intn(3) != 0, Effects: r.Intn(3) == 0, Slices: r.Intn(2) == 0, Strings: r.Intn(2) == 0, Safe: true, MaxDepth: 2 + r.Intn(4), MaxStmts: 2 + r.Intn(5)}
			src, fs := GenProgram(r, o)
			for k, v := range fs {
				feats[k] += v
			}
			f := progFields("main.tsh", map[string]string{"main.tsh": src}, false)
			g.addCase("emit", f...)
			g.addCase("batrun", f...)
		}
		g.meta["sem_batch_features"] = feats
	}
}

var batchTargeted = []struct{ tag, src string }{
	{"two-digit-slice", "p := []int{1, 2, 3, 4, 5, 6, 7, 8, 9, 10, 11, 12}\nvar v []int\nc := copy(v, p)\nprint(c, len(v), v[11])\nvar s []int\ns[10] = 1\nprint(len(s), s[5], s[10])\n"},
	{"assign-inside-slice", "s := []int{1, 2, 3}\ns[0] = 5\nprint(len(s), s[0], s[2])\ns[2] = 7\nprint(len(s), s[2])\n"},
	{"print-blanks", "print(\"\", \"\")\nprint(\" \")\nprint(\"\")\nprint(\"a\", \"\", \"b\")\n"},
	{"sequential-loops", "t := 0\nfor i := 0; i < 3; i++ {\n\tt = t + i\n}\nfor j := 0; j < 4; j++ {\n\tif j == 2 {\n\t\tcontinue\n\t}\n\tt = t + 10\n}\nfor t < 100 {\n\tt = t * 2\n\tif t > 60 {\n\t\tbreak\n\t}\n}\nprint(t)\n"},
	{"nested-loops", "t := 0\nfor i := 0; i < 3; i++ {\n\tfor j := 0; j < 3; j++ {\n\t\tif j == 1 {\n\t\t\tcontinue\n\t\t}\n\t\tfor k := 0; k < 2; k++ {\n\t\t\tif k == 1 {\n\t\t\t\tbreak\n\t\t\t}\n\t\t\tt = t + 1\n\t\t}\n\t}\n\tif i == 1 {\n\t\tcontinue\n\t}\n\tt = t + 100\n}\nprint(t)\n"},
	{"loops-in-functions", "func inner(n int) int {\n\tr := 0\n\tfor r < n {\n\t\tr = r + 1\n\t}\n\treturn r\n}\nfunc outer(n int) int {\n\tacc := 0\n\tfor i := 1; i <= n; i++ {\n\t\tacc = acc + inner(i)\n\t\tprint(i, acc)\n\t}\n\treturn acc\n}\nprint(\"done\", outer(3))\n"},
	{"two-lengths", "a := []int{1, 2, 3}\nb := []int{1, 2}\nif len(a) > len(b) {\n\tprint(\"a is longer\")\n} else {\n\tprint(\"a is not longer\")\n}\nprint(len(a) - len(b))\nprint(len(a), len(b))\n"},
	{"multi-digit-compare", "x := 10\ny := 9\nprint(x > y, x < y, 100 >= 99, 2 < 12, -5 < 3)\nif x > y {\n\tprint(\"gt\")\n} else if x == y {\n\tprint(\"eq\")\n} else {\n\tprint(\"lt\")\n}\n"},
	{"arith-32", "a := 46341\nb := a * 46340\nprint(b, b / 7, b % 7, 0 - b, (0 - b) / 7, (0 - b) % 7)\n"},
	{"if-chains", "for i := 0; i < 5; i++ {\n\tif i == 0 {\n\t\tprint(\"zero\")\n\t} else if i == 1 {\n\t\tprint(\"one\")\n\t} else if i == 2 {\n\t\tif i > 1 {\n\t\t\tprint(\"two\")\n\t\t}\n\t} else {\n\t\tprint(\"many\")\n\t}\n}\n"},
	{"strings", "s := \"hello world\"\nprint(len(s), s[0:5], s[6], s[6:])\nt := s + \"!\"\nprint(t, t == s, t != s)\n"},
	{"panic-in-function", "func f() {\n\tpanic(\"boom\")\n}\nprint(\"before\")\nf()\nprint(\"after\")\n"},
	{"panic-top-level", "print(\"before\")\npanic(\"boom\")\nprint(\"after\")\n"},
}

const orderPrelude = "func t(k int) int {\n\tprint(\"t\", k)\n\treturn k\n}\nfunc ts(k int) string {\n\tprint(\"ts\", k)\n\treturn \"abcdef\"\n}\nfunc tb(k int, v bool) bool {\n\tprint(\"tb\", k)\n\treturn v\n}\n"

var orderProbes = []string{
	"xs := []int{t(1), t(2), t(3)}\nprint(xs[0], xs[1], xs[2])\n",
	"xs := []int{0, 0, 0}\nxs[t(1)] = t(5)\nxs[t(0)] = t(2) + t(3)\nprint(xs[0], xs[1], xs[2])\n",
	"xs := []int{}\nxs[t(0)] = t(7)\nxs[t(1)] = t(8)\nfor i := 0; i < len(xs); i++ {\n\tprint(i, xs[i])\n}\n",
	"a, b := t(1), t(2)\na, b = t(b), t(a)\nprint(a, b)\n",
	"print(t(1), t(2) + t(3), t(4) * (t(5) - t(6)))\n",
	"s := ts(1)\nprint(s[t(1):t(3)])\nprint(len(ts(2)), t(3))\n",
	"func two() (int, int) {\n\treturn t(8), t(9)\n}\nc, d := two()\nprint(c, d)\nc, d = two()\nprint(d, c)\n",
	"if tb(1, true) && tb(2, false) || tb(3, true) {\n\tprint(\"yes\")\n} else if tb(4, true) {\n\tprint(\"no\")\n}\n",
	"for i := t(0); i < t(2); i = i + t(1) {\n\tprint(\"i\", i)\n}\n",
	"func add(a int, b int, c int) int {\n\treturn a + b + c\n}\nprint(add(t(1), add(t(2), t(3), t(4)), t(5)))\n",
	"xs := []int{1, 2, 3}\nys := []int{0, 0}\nn := copy(ys, xs)\nprint(n, ys[t(0)], ys[t(1)], xs[t(2)])\n",
	"switch t(2) {\ncase t(1):\n\tprint(\"one\")\ncase t(2):\n\tprint(\"two\")\ndefault:\n\tprint(\"other\")\n}\n",
	"xs := []int{0, 0, 0}\nfunc put(i int, v int) {\n\txs[t(i)] = t(v) + xs[t(i)]\n}\nput(1, 4)\nput(1, 5)\nprint(xs[1])\n",
}
