package main

// Stream "rename" and runner "ren" (property C10): a generated, accepted program and the same program
// with its identifiers renamed injectively.  One or two identifiers receive names of a CLASS of names the
// back-ends or the shell own (tag #<kind>/<class>), all others fresh ordinary names.
//
// CASE   ren <id> <main> <files A> <stddir> <files B>
// OBS    verdict=same|rejected|differ outA=<hex> statusA=<n> outB=<hex> statusB=<n> stderrB=<hex>
//        same: both scripts print the same and exit alike (and the renamed one is silent on stderr when
//        the original is); rejected: the renamed program is refused by the transpiler.
// The driver prints spec=same|differ|undefined from the reference semantics of both programs: a renaming
// that changes the meaning of the SOURCE would be a defect of this generator, not of the implementation.

import (
	"fmt"
	"math/rand"
	"os"
	"regexp"
	"sort"
	"strings"
	"time"
)

var tsKeywords = map[string]bool{}

func init() {
	for _, w := range strings.Fields("func var if else for range switch case default return break continue import true false int string bool error " +
		"print len panic input read write exists copy itoa nil") {
		tsKeywords[w] = true
	}
}

type identUse struct {
	start, end int
	name       string
}

// userIdents finds the identifiers of a program outside string literals and comments that are neither
// keywords, types, builtins, import aliases, alias members nor command names.
func userIdents(src string) (uses []identUse, funcs map[string]bool) {
	funcs = map[string]bool{}
	i := 0
	prevWord := ""
	for i < len(src) {
		c := src[i]
		switch {
		case c == '"':
			i++
			for i < len(src) && src[i] != '"' {
				if src[i] == '\\' {
					i++
				}
				i++
			}
			i++
			prevWord = ""
		case c == '`':
			i++
			for i < len(src) && src[i] != '`' {
				i++
			}
			i++
			prevWord = ""
		case c == '/' && i+1 < len(src) && src[i+1] == '/':
			for i < len(src) && src[i] != '\n' {
				i++
			}
		case c == '/' && i+1 < len(src) && src[i+1] == '*':
			j := strings.Index(src[i+2:], "*/")
			if j < 0 {
				i = len(src)
			} else {
				i += j + 4
			}
		case c == '_' || (c >= 'a' && c <= 'z') || (c >= 'A' && c <= 'Z'):
			j := i
			for j < len(src) && (src[j] == '_' || (src[j] >= 'a' && src[j] <= 'z') || (src[j] >= 'A' && src[j] <= 'Z') || (src[j] >= '0' && src[j] <= '9')) {
				j++
			}
			w := src[i:j]
			before := byte(' ')
			if i > 0 {
				before = src[i-1]
			}
			after := byte(' ')
			if j < len(src) {
				after = src[j]
			}
			if !tsKeywords[w] && before != '.' && before != '@' && after != '.' {
				uses = append(uses, identUse{i, j, w})
				if prevWord == "func" {
					funcs[w] = true
				}
			}
			prevWord = w
			i = j
		default:
			if c != ' ' && c != '\t' {
				prevWord = ""
			}
			i++
		}
	}
	return uses, funcs
}

func applyRenaming(src string, uses []identUse, m map[string]string) string {
	var b strings.Builder
	last := 0
	for _, u := range uses {
		b.WriteString(src[last:u.start])
		if n, ok := m[u.name]; ok {
			b.WriteString(n)
		} else {
			b.WriteString(u.name)
		}
		last = u.end
	}
	b.WriteString(src[last:])
	return b.String()
}

var renameClasses = map[string][]string{
	"plain":          {"alpha", "beta7", "Gamma", "delta_x", "e9"},
	"helper-var":     {"_h0", "_h1", "_h2", "_h3", "_h10"},
	"return-reg":     {"_rv0", "_rv1"},
	"loop-flag":      {"_fv0", "_fv1", "_fv2"},
	"dyn-slice":      {"_dvc", "_dv1", "_dv2"},
	"helper-scratch": {"_ret", "_i", "_l", "_c", "_n", "_v", "_ls", "_ll"},
	"helper-routine": {"_sah", "_sch", "_ssh"},
	"mangled-local":  {"f1_a", "f1_x", "f2_a", "f1__h0", "f1_i", "f2_s", "f1_n"},
	"underscore":     {"_", "_x", "_tmp", "__"},
	"shell-builtin":  {"echo", "eval", "printf", "local", "cat", "test", "set", "shift", "unset", "exit", "cd", "declare", "let", "exec", "source", "wait"},
	"shell-keyword":  {"fi", "done", "then", "do", "elif", "esac", "function", "select", "until", "while", "in", "time"},
	"env-var":        {"PATH", "IFS", "HOME", "PWD", "RANDOM", "SECONDS", "LINENO", "UID", "OPTIND", "PPID", "BASH", "REPLY"},
	"case-variant":   {"value", "Value", "VALUE"},
	"non-ascii":      {"µs", "ê", "õ", "ú", "ε", "κ", "е", "к", "ä", "naïve", "Δt"},
}

// targeted renamings: spellings whose concatenations with function names, counters or prefixes coincide
type targeted struct {
	src   string
	m     map[string]string
	class string
}

const twoFuncs = "func inner(n int) int {\n\ttot := n + 100\n\treturn tot\n}\nfunc outer(n int) int {\n\tacc := n * 2\n\tt := inner(n)\n\treturn acc + t\n}\ng := 7\nprint(outer(3), g)\ng = g + outer(1)\nprint(g)\n"

// caller and callee have a local of the same name; the callee runs while the caller's local is live
const sameLocal = "func inner(n int) int {\n\tacc := n + 100\n\treturn acc\n}\nfunc outer(n int) int {\n\tacc := n * 2\n\tt := inner(n)\n\treturn acc + t\n}\nvar tot int = 0\nfor i := 0; i < 3; i++ {\n\ttot = tot + outer(i)\n}\nprint(tot, outer(5))\n"

var renameTargeted = []targeted{
	{sameLocal, map[string]string{"acc": "Acc", "inner": "inner", "outer": "outer", "n": "n", "t": "t", "tot": "tot", "i": "i"}, "case-variant"},
	{sameLocal, map[string]string{"acc": "ACC", "inner": "Inner", "outer": "Outer", "n": "N", "t": "T", "tot": "Tot", "i": "I"}, "case-variant"},
	{sameLocal, map[string]string{"acc": "Value", "inner": "inner", "outer": "outer", "n": "Num", "t": "t", "tot": "Total", "i": "Idx"}, "case-variant"},
	{sameLocal, map[string]string{"acc": "a_very_long_local_name_that_goes_on_and_on_0123456789", "inner": "inner", "outer": "outer", "n": "n", "t": "t", "tot": "tot", "i": "i"}, "plain"},
	{twoFuncs, map[string]string{"outer": "sum", "acc": "sq_acc", "inner": "sum_sq", "tot": "acc", "g": "total", "n": "n", "t": "t"}, "concat-collision"},
	{twoFuncs, map[string]string{"outer": "get", "acc": "count", "inner": "get_count", "tot": "x", "g": "get_count_x", "n": "n", "t": "t"}, "concat-collision"},
	{twoFuncs, map[string]string{"outer": "a", "acc": "b_c", "inner": "a_b", "tot": "c", "g": "a_b_c", "n": "n", "t": "t"}, "concat-collision"},
	{twoFuncs, map[string]string{"outer": "f", "acc": "x1", "inner": "f1", "tot": "x", "g": "f1_tot", "n": "n", "t": "t"}, "mangled-local"},
	{twoFuncs, map[string]string{"outer": "f1", "acc": "acc", "inner": "f2", "tot": "acc2", "g": "f2_acc", "n": "n", "t": "t"}, "mangled-local"},
	{twoFuncs, map[string]string{"outer": "Outer", "acc": "Acc", "inner": "outer", "tot": "acc", "g": "ACC", "n": "n", "t": "T"}, "case-variant"},
}

var renameHand = []string{
	"func twice(a int) int {\n\tb := a * 2\n\treturn b\n}\nx := 5\ny := (x + 1) * 2\nprint(x, y, twice(y))\n",
	"func join(a string, b string) string {\n\treturn a + \"-\" + b\n}\ns := []string{\"p\", \"q\"}\nfor i, v := range s {\n\tprint(i, join(v, v))\n}\nn := len(s)\nprint(n)\n",
	"total := 0\nfor i := 0; i < 4; i++ {\n\tfor j := 0; j < 3; j++ {\n\t\tif j == 1 {\n\t\t\tcontinue\n\t\t}\n\t\ttotal = total + i * j\n\t}\n}\nprint(total)\n",
	"func fact(n int) int {\n\tif n <= 1 {\n\t\treturn 1\n\t}\n\treturn n * fact(n - 1)\n}\nfunc show(v int) {\n\tprint(\"v\", v)\n}\nr := fact(5)\nshow(r)\nw := \"abc\"\nprint(w[0:2], len(w))\n",
	"var xs []int\nxs[0] = 3\nxs[2] = 9\nvar ys []int\nc := copy(ys, xs)\nprint(c, len(ys), ys[2])\nok := c == 3 && ys[1] == 0\nprint(ok)\n",
}

var reIdent = regexp.MustCompile(`^[A-Za-z_][A-Za-z0-9_]*$`)

func runRen(f []string) string {
	for len(f) < 6 {
		f = append(f, "")
	}
	run := func(files string) (string, scriptResult) {
		dir, _ := os.MkdirTemp("", "rn")
		defer os.RemoveAll(dir)
		real := materialise(dir, unhx(f[2]), parseFiles(files))
		t := transpileTo(real, "bash")
		if !strings.HasPrefix(t, "ok:") {
			return t, scriptResult{}
		}
		return "ok", runScriptT(unhx(t[3:]), "", nil, "", 3*time.Second)
	}
	ta, ra := run(f[3])
	if ta != "ok" {
		return "verdict=original-rejected"
	}
	tb, rb := run(f[5])
	if tb != "ok" {
		if tb == "err" {
			return "verdict=rejected"
		}
		return "verdict=renamed-" + tb
	}
	v := "same"
	if ra.stdout != rb.stdout || ra.status != rb.status || ra.timeout != rb.timeout || (ra.stderr == "" && rb.stderr != "") {
		v = "differ"
	}
	return fmt.Sprintf("verdict=%s outA=%s statusA=%d outB=%s statusB=%d stderrB=%s", v, hx(ra.stdout), ra.status, hx(rb.stdout), rb.status, hx(rb.stderr))
}

func init() {
	runners["ren"] = runRen
	streams["rename"] = func(r *rand.Rand, n int, g *genOut) {
		classes := []string{}
		for c := range renameClasses {
			classes = append(classes, c)
		}
		sort.Strings(classes)
		dist := map[string]int{}
		for _, tg := range renameTargeted {
			uses, _ := userIdents(tg.src)
			ren := applyRenaming(tg.src, uses, tg.m)
			fa := progFields("main.tsh", map[string]string{"main.tsh": tg.src}, false)
			fb := progFields("main.tsh", map[string]string{"main.tsh": ren}, false)
			g.addCase("emit", fa...)
			g.addCase("emit", fb...)
			id := fmt.Sprintf("%d#var/%s", g.n, tg.class)
			g.n++
			fmt.Fprintf(g.cases, "ren %s %s %s %s %s\n", id, fa[0], fa[1], fa[2], fb[1])
			dist["var/"+tg.class]++
		}
		for i := 0; i < n; i++ {
			var src string
			if r.Intn(4) == 0 {
				src = renameHand[r.Intn(len(renameHand))]
			} else {
				src, _ = GenProgram(r, GenOpts{Funcs: true, Effects: r.Intn(2) == 0, Slices: r.Intn(2) == 0, Strings: r.Intn(2) == 0, Safe: true, MaxDepth: 2 + r.Intn(3), MaxStmts: 2 + r.Intn(4)})
			}
			if strings.Contains(src, "import") {
				continue
			}
			uses, funcs := userIdents(src)
			names := []string{}
			seen := map[string]bool{}
			for _, u := range uses {
				if !seen[u.name] {
					seen[u.name] = true
					names = append(names, u.name)
				}
			}
			if len(names) == 0 {
				continue
			}
			class := classes[i%len(classes)]
			pool := renameClasses[class]
			m := map[string]string{}
			used := map[string]bool{}
			// the special identifiers: one (sometimes two) of the program's names
			perm := r.Perm(len(names))
			k := 1 + r.Intn(2)
			kind := "var"
			for a := 0; a < k && a < len(perm) && a < len(pool); a++ {
				nm := names[perm[a]]
				target := pool[r.Intn(len(pool))]
				for used[target] {
					target = pool[r.Intn(len(pool))]
				}
				used[target] = true
				m[nm] = target
				if funcs[nm] {
					kind = "func"
				}
			}
			fresh := 0
			for _, nm := range names {
				if _, ok := m[nm]; ok {
					continue
				}
				for {
					fresh++
					cand := fmt.Sprintf("zq%d", fresh)
					if !used[cand] && !seen[cand] {
						m[nm] = cand
						used[cand] = true
						break
					}
				}
			}
			ren := applyRenaming(src, uses, m)
			fa := progFields("main.tsh", map[string]string{"main.tsh": src}, false)
			fb := progFields("main.tsh", map[string]string{"main.tsh": ren}, false)
			g.addCase("emit", fa...)
			g.addCase("emit", fb...)
			id := fmt.Sprintf("%d#%s/%s", g.n, kind, class)
			g.n++
			fmt.Fprintf(g.cases, "ren %s %s %s %s %s\n", id, fa[0], fa[1], fa[2], fb[1])
			dist[kind+"/"+class]++
		}
		g.meta["rename_kind_class"] = dist
	}
}
